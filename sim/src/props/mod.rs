use crate::framework::Prop;
pub mod c15;

pub fn all() -> Vec<Box<dyn Prop>> {
    vec![Box::new(c15::C15)]
}
