//! vsim — deterministic simulation with fault injection for miden-vm.
mod framework;
mod gen;
mod model;
mod props;
mod rng;
mod runner;
mod world;

use framework::{Prop, Tier};

fn usage() -> i32 {
    println!("usage: vsim <PROPERTY> [--tier quick|thorough] [--seed N] [--runs N] [--workers N] [--no-evidence]\n       vsim replay <file>\n       vsim gen <PROPERTY> <tier> <seed> <index>\n       vsim list");
    2
}

fn main() {
    framework::install_panic_hook();
    let args: Vec<String> = std::env::args().skip(1).collect();
    let props = props::all();
    let refs: Vec<&dyn Prop> = props.iter().map(|p| p.as_ref()).collect();
    let code = real_main(&args, &refs);
    std::process::exit(code);
}

fn find<'a>(props: &[&'a dyn Prop], id: &str) -> Option<&'a dyn Prop> {
    props.iter().find(|p| p.id().eq_ignore_ascii_case(id)).copied()
}

fn real_main(args: &[String], props: &[&dyn Prop]) -> i32 {
    if args.is_empty() {
        return usage();
    }
    match args[0].as_str() {
        "list" => {
            for p in props {
                println!("{} {}", p.id(), p.level());
            }
            0
        }
        "worker" => {
            if args.len() < 4 {
                return usage();
            }
            let p = match find(props, &args[1]) {
                Some(p) => p,
                None => return 2,
            };
            let tier = Tier::parse(&args[2]).unwrap_or(Tier::Quick);
            let seed: u64 = args[3].parse().unwrap_or(rng::DEFAULT_SEED);
            runner::worker_main(p, tier, seed)
        }
        "replay" => {
            if args.len() < 2 {
                return usage();
            }
            runner::replay_main(props, &args[1])
        }
        "gentest" => {
            // generator health: histogram of assemble / execution outcomes
            let n: u64 = args.get(1).and_then(|s| s.parse().ok()).unwrap_or(200);
            let verbose = args.get(2).map(|s| s == "-v").unwrap_or(false);
            let mut hist: std::collections::BTreeMap<String, u64> = Default::default();
            for i in 0..n {
                let mut r = rng::Rng::new(rng::run_seed(7, "gentest", i));
                let cfg = gen::prog::GenCfg::swarm(&mut r);
                let p = gen::prog::generate(&mut r, cfg);
                let spec = world::vm::ProgSpec::from_json(&p.to_json());
                let key = match spec.assemble(false) {
                    Err(e) => {
                        if verbose {
                            println!("--- {i}: {e}\n{}", spec.source);
                        }
                        format!("asm: {}", framework::msg_key(&e, 70))
                    }
                    Ok(prog) => {
                        let mut host = spec.host(vec![], Default::default());
                        let o = world::vm::run(&prog, spec.stack(), &mut host, world::vm::options(Some(1 << 22), 64, false));
                        if verbose && !o.is_ok() {
                            if let world::vm::Outcome::Err(e) = &o { println!("--- {i}: {e}\n{}", spec.source); }
                            if let world::vm::Outcome::Panic(l, m) = &o { println!("--- {i}: PANIC {l} {m}\n{}", spec.source); }
                        }
                        match &o {
                            world::vm::Outcome::Err(e) => format!("exec: {}", framework::msg_key(&format!("{e}"), 50)),
                            _ => o.class(),
                        }
                    }
                };
                *hist.entry(key).or_insert(0) += 1;
            }
            for (k, v) in hist {
                println!("{v:6}  {k}");
            }
            0
        }
        "obs" => {
            if args.len() < 2 {
                return usage();
            }
            runner::obs_main(props, &args[1])
        }
        "gen" => {
            if args.len() < 5 {
                return usage();
            }
            let p = match find(props, &args[1]) {
                Some(p) => p,
                None => return 2,
            };
            let tier = Tier::parse(&args[2]).unwrap_or(Tier::Quick);
            let seed: u64 = args[3].parse().unwrap_or(rng::DEFAULT_SEED);
            let i: u64 = args[4].parse().unwrap_or(0);
            let (sc, out) = runner::run_one(p, tier, seed, i);
            println!("{}", serde_json::to_string_pretty(&sc).unwrap());
            println!("nontrivial={} cycles={} evals={} counters={:?}", out.nontrivial, out.cycles, out.evals, out.counters);
            for v in &out.violations {
                println!("VIOL {} :: {}", v.class, v.detail);
            }
            0
        }
        id => {
            let p = match find(props, id) {
                Some(p) => p,
                None => {
                    println!("HARNESS-ERROR: unknown property {id}");
                    return 2;
                }
            };
            let mut tier = std::env::var("VERIF_TIER").ok().and_then(|t| Tier::parse(&t)).unwrap_or(Tier::Quick);
            let mut seed = runner::parse_seed();
            let mut runs = None;
            let mut workers = None;
            let mut write_evidence = true;
            let mut i = 1;
            while i < args.len() {
                match args[i].as_str() {
                    "--tier" => {
                        i += 1;
                        tier = match args.get(i).and_then(|t| Tier::parse(t)) {
                            Some(t) => t,
                            None => return usage(),
                        };
                    }
                    "--seed" => {
                        i += 1;
                        seed = args.get(i).and_then(|s| s.parse().ok()).unwrap_or(seed);
                    }
                    "--runs" => {
                        i += 1;
                        runs = args.get(i).and_then(|s| s.parse().ok());
                    }
                    "--workers" => {
                        i += 1;
                        workers = args.get(i).and_then(|s| s.parse().ok());
                    }
                    "--no-evidence" => write_evidence = false,
                    _ => return usage(),
                }
                i += 1;
            }
            runner::supervise(p, &runner::SupervisorCfg { tier, seed, runs, workers, write_evidence })
        }
    }
}
