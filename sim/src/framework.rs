//! Property interface, run results, panic capture.

use crate::rng::{Fnv, Rng};
use serde_json::{json, Value};
use std::cell::RefCell;
use std::collections::BTreeMap;
use std::panic::{self, AssertUnwindSafe};

#[derive(Clone, Copy, PartialEq, Eq, Debug)]
pub enum Tier {
    Quick,
    Thorough,
}
impl Tier {
    pub fn name(&self) -> &'static str {
        match self {
            Tier::Quick => "quick",
            Tier::Thorough => "thorough",
        }
    }
    pub fn parse(s: &str) -> Option<Tier> {
        match s {
            "quick" => Some(Tier::Quick),
            "thorough" => Some(Tier::Thorough),
            _ => None,
        }
    }
}

#[derive(Clone, Debug)]
pub struct Violation {
    /// stable identification of *what* fails: "<prop>/<oracle>/<key>"
    pub class: String,
    pub detail: String,
}

#[derive(Default, Clone, Debug)]
pub struct RunOut {
    /// digest of the scenario (for counting distinct cases)
    pub digest: u64,
    /// digest of everything observed while executing (for the determinism re-check)
    pub obs: u64,
    /// did the run reach the oracle in a non-trivial way (rule stated per property)
    pub nontrivial: bool,
    /// number of distinct non-trivial cases inside this run, when a run is a batch; their digests
    pub sub_digests: Vec<u64>,
    /// evaluations inside the run (1 unless the run is a batch)
    pub evals: u64,
    /// simulated time: VM clock cycles executed
    pub cycles: u64,
    /// "fault:<kind>", "probe:<name>", "reach:<key>", "outcome:<class>" counters
    pub counters: BTreeMap<String, u64>,
    pub violations: Vec<Violation>,
    /// a written-out case for the evidence file
    pub sample: Option<Value>,
}

impl RunOut {
    pub fn count(&mut self, key: &str) {
        *self.counters.entry(key.to_string()).or_insert(0) += 1;
    }
    pub fn count_n(&mut self, key: &str, n: u64) {
        *self.counters.entry(key.to_string()).or_insert(0) += n;
    }
    pub fn violate(&mut self, class: impl Into<String>, detail: impl Into<String>) {
        let class = class.into();
        // one violation per class per run keeps reports small
        if self.violations.iter().any(|v| v.class == class) {
            return;
        }
        self.violations.push(Violation { class, detail: detail.into() });
    }
}

pub trait Prop: Sync {
    fn id(&self) -> &'static str;
    /// "exploration" | "fault_enumeration"
    fn level(&self) -> &'static str;
    /// number of runs for a tier
    fn runs(&self, tier: Tier) -> u64;
    /// text for coverage.rule
    fn rule(&self) -> &'static str;
    /// phase 1: a pure function of the rng; produces the fully materialised scenario
    fn generate(&self, rng: &mut Rng, tier: Tier, index: u64) -> Value;
    /// phase 2: a pure function of the scenario and the code under test (no rng, no clock)
    fn execute(&self, scenario: &Value) -> RunOut;
    /// JSON pointers of arrays in the scenario whose elements the shrinker may drop
    fn shrink_arrays(&self) -> Vec<&'static str> {
        vec![]
    }
    /// property-specific shrink candidates (structural); default none
    fn shrink_candidates(&self, _scenario: &Value) -> Vec<Value> {
        vec![]
    }
    fn components_real(&self) -> Vec<&'static str>;
    fn components_simulated(&self) -> Vec<&'static str>;
    fn assumptions(&self) -> Vec<&'static str>;
    /// wall-clock cap (seconds) after which no new runs are dispatched
    fn wall_cap_s(&self, tier: Tier) -> u64 {
        match tier {
            Tier::Quick => 240,
            Tier::Thorough => 1500,
        }
    }
    /// max number of re-executions spent minimising one violation
    fn shrink_budget(&self) -> u64 {
        400
    }
    /// a run that gives no result within this many seconds is killed and reported as a hang
    fn run_timeout_s(&self) -> u64 {
        300
    }
    /// address-space cap of a worker process (only where a runaway execution is a plausible failure)
    fn worker_mem_limit_gb(&self) -> Option<u64> {
        None
    }
    /// whether a cross-process observation mismatch is a violation of the property itself
    fn nondeterminism_is_violation(&self) -> bool {
        false
    }
    /// max number of worker processes (memory-hungry properties lower this)
    fn max_workers(&self) -> usize {
        16
    }
}

// ------------------------------------------------------------------------------------------------
// panic capture

thread_local! {
    static LAST_PANIC: RefCell<Option<(String, String)>> = const { RefCell::new(None) };
}

pub fn install_panic_hook() {
    panic::set_hook(Box::new(|info| {
        let loc = info
            .location()
            .map(|l| format!("{}:{}", shorten(l.file()), l.line()))
            .unwrap_or_else(|| "?".into());
        let msg = if let Some(s) = info.payload().downcast_ref::<&str>() {
            s.to_string()
        } else if let Some(s) = info.payload().downcast_ref::<String>() {
            s.clone()
        } else {
            "<non-string panic>".into()
        };
        if std::env::var("VSIM_PANIC_PRINT").is_ok() {
            eprintln!("panic at {}: {}", loc, msg);
        }
        LAST_PANIC.with(|p| *p.borrow_mut() = Some((loc, msg)));
    }));
}

fn shorten(path: &str) -> String {
    // keep the path stable across checkouts: strip everything up to the crate directory
    if let Some(i) = path.find("/registry/src/") {
        let rest = &path[i + 14..];
        if let Some(j) = rest.find('/') {
            return rest[j + 1..].to_string();
        }
    }
    if path.starts_with("src/") {
        return format!("HARNESS/{}", path);
    }
    if let Some(i) = path.find("/verif/sim/") {
        return format!("HARNESS/{}", &path[i + 11..]);
    }
    if let Some(i) = path.find("/repo/") {
        return path[i + 6..].to_string();
    }
    // scratch worktrees: keep the last 4 components
    let parts: Vec<&str> = path.split('/').collect();
    if parts.len() > 4 {
        parts[parts.len() - 4..].join("/")
    } else {
        path.to_string()
    }
}

/// Runs `f`; `Err((location, message))` if it panicked.
pub fn catch<T>(f: impl FnOnce() -> T) -> Result<T, (String, String)> {
    LAST_PANIC.with(|p| *p.borrow_mut() = None);
    match panic::catch_unwind(AssertUnwindSafe(f)) {
        Ok(v) => Ok(v),
        Err(_) => {
            let got = LAST_PANIC.with(|p| p.borrow_mut().take());
            Err(got.unwrap_or_else(|| ("?".into(), "?".into())))
        }
    }
}

/// first line, trimmed to n chars, digits runs collapsed: keeps violation classes stable
pub fn msg_key(msg: &str, n: usize) -> String {
    let first = msg.lines().next().unwrap_or("");
    let mut out = String::new();
    let mut in_digits = false;
    for c in first.chars() {
        if c.is_ascii_digit() {
            if !in_digits {
                out.push('#');
            }
            in_digits = true;
        } else {
            in_digits = false;
            out.push(c);
        }
        if out.len() >= n {
            break;
        }
    }
    out
}

pub fn digest_value(v: &Value) -> u64 {
    let mut h = Fnv::new();
    h.str(&v.to_string());
    h.finish()
}

pub fn hex(v: u64) -> String {
    format!("{:016x}", v)
}

pub fn replay_doc(prop: &str, tier: Tier, base_seed: u64, index: u64, class: &str, detail: &str, scenario: &Value, minimised: bool, steps: u64) -> Value {
    json!({
        "property": prop,
        "tier": tier.name(),
        "base_seed": base_seed,
        "run_index": index,
        "class": class,
        "detail": detail,
        "minimised": minimised,
        "shrink_steps": steps,
        "scenario": scenario,
    })
}
