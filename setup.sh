#!/bin/bash
# Run once after a fresh restore (offline): builds the simulator from files on disk only.
set -e
cd "$(dirname "$0")"
mkdir -p evidence replays
./check build
echo "setup ok"
