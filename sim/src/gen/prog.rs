//! G_all: general program generator (swarm style). Programs are executable by construction: the
//! generator tracks an abstract stack (kind of each element, and how many elements may be popped
//! without reaching the 16-element floor) and every condition / advice value is produced by a
//! structural walk that follows the dynamic execution order.

use crate::rng::{Rng, P};
use serde_json::{json, Value};

#[derive(Clone, Copy, PartialEq, Eq, Debug)]
pub enum Kind {
    Any,
    U32,
    Bin,
}
use Kind::*;

impl Kind {
    fn sat(self, req: u8) -> bool {
        match req {
            b'a' => true,
            b'u' => self != Any,
            b'b' => self == Bin,
            _ => false,
        }
    }
    fn of_char(c: u8) -> Kind {
        match c {
            b'u' => U32,
            b'b' => Bin,
            _ => Any,
        }
    }
    fn of_value(v: u64) -> Kind {
        if v < 2 {
            Bin
        } else if v < (1 << 32) {
            U32
        } else {
            Any
        }
    }
}

/// advice need of one op instance, in dynamic order: kinds of the elements popped
#[derive(Clone, Debug)]
pub enum Item {
    /// instruction text, advice kinds consumed (in pop order), estimated cycles
    Op { txt: String, adv: Vec<u8>, cost: u32 },
    If { then: Vec<Item>, els: Vec<Item>, cond: Cond },
    While { body: Vec<Item> },
    Repeat { n: u32, body: Vec<Item> },
    /// invoke procedure `idx` with `how` in {"exec","call","syscall","dynexec","dyncall"}
    Invoke { how: &'static str, idx: usize },
}

#[derive(Clone, Debug)]
pub enum Cond {
    /// `adv_push.1 if.true` — the host decides
    Advice,
    /// `push.<b> if.true`
    Const(bool),
    /// computed from the stack; branch bodies are advice-free so the walk need not know
    Computed,
}

#[derive(Clone, Debug)]
pub struct ProcDef {
    pub name: String,
    pub locals: u32,
    pub body: Vec<Item>,
    pub kernel: bool,
    pub exported: bool,
}

#[derive(Clone, Debug, Default)]
pub struct MerkleSpec {
    /// leaves of the trees made available in the host's Merkle store
    pub trees: Vec<Vec<[u64; 4]>>,
}

#[derive(Clone, Debug)]
pub struct GenCfg {
    pub max_nest: u32,
    pub chunk_max: usize,
    pub n_procs: usize,
    pub n_kernel: usize,
    pub w_field: u32,
    pub w_u32: u32,
    pub w_stack: u32,
    pub w_mem: u32,
    pub w_crypto: u32,
    pub w_adv: u32,
    pub w_misc: u32,
    pub w_deco: u32,
    pub w_ctrl: u32,
    pub allow_call: bool,
    pub allow_dyn: bool,
    pub n_inputs: usize,
    pub max_dyn_ops: u64,
    /// wide-spread u32 limbs and far-apart addresses (range-checker dominated traces)
    pub range_heavy: bool,
    pub long_loops: bool,
    pub emit_everywhere: bool,
}

impl GenCfg {
    /// swarm: every run draws its own mix
    pub fn swarm(rng: &mut Rng) -> GenCfg {
        let mode = rng.below(10);
        let mut c = GenCfg {
            max_nest: rng.range(0, 4) as u32,
            chunk_max: *rng.pick(&[3usize, 8, 20, 40, 90, 200]),
            n_procs: rng.range(0, 4) as usize,
            n_kernel: if rng.chance(1, 3) { rng.range(1, 3) as usize } else { 0 },
            w_field: rng.range(0, 10) as u32,
            w_u32: rng.range(0, 10) as u32,
            w_stack: rng.range(1, 10) as u32,
            w_mem: rng.range(0, 8) as u32,
            w_crypto: rng.range(0, 4) as u32,
            w_adv: rng.range(0, 4) as u32,
            w_misc: rng.range(0, 4) as u32,
            w_deco: rng.range(0, 3) as u32,
            w_ctrl: rng.range(1, 6) as u32,
            allow_call: rng.chance(2, 3),
            allow_dyn: rng.chance(1, 2),
            n_inputs: *rng.pick(&[0usize, 1, 4, 15, 16, 17, 20, 33, 40]),
            max_dyn_ops: 6000,
            range_heavy: false,
            long_loops: false,
            emit_everywhere: false,
        };
        match mode {
            0 => {
                // chiplet dominated
                c.w_crypto = 30;
                c.w_u32 = 2;
            }
            1 => {
                // range dominated
                c.range_heavy = true;
                c.w_u32 = 20;
                c.w_mem = 10;
                c.w_crypto = 0;
            }
            2 => {
                // main dominated: loops
                c.long_loops = true;
                c.max_nest = c.max_nest.max(2);
                c.w_crypto = 0;
            }
            _ => {}
        }
        c
    }
}

#[derive(Clone, Debug)]
pub struct GenProgram {
    pub procs: Vec<ProcDef>,
    pub body: Vec<Item>,
    pub stack_inputs: Vec<u64>,
    pub advice_stack: Vec<u64>,
    pub merkle: MerkleSpec,
    pub dyn_ops: u64,
    pub imports: Vec<String>,
    pub oversize: bool,
}

struct St {
    kinds: Vec<Kind>, // top last
    avail: usize,
    exact: bool,
}

impl St {
    fn top(&self, i: usize) -> Kind {
        if i < self.kinds.len() {
            self.kinds[self.kinds.len() - 1 - i]
        } else {
            Any
        }
    }
    fn push(&mut self, k: Kind) {
        self.kinds.push(k);
        self.avail += 1;
    }
    fn pop(&mut self) -> Kind {
        debug_assert!(self.avail > 0);
        self.avail -= 1;
        self.kinds.pop().unwrap_or(Any)
    }
    fn ensure_len(&mut self, n: usize) {
        while self.kinds.len() < n {
            self.kinds.insert(0, Any);
        }
    }
    fn forget(&mut self) {
        for k in self.kinds.iter_mut() {
            *k = Any;
        }
    }
}

pub struct Gen<'a> {
    pub rng: &'a mut Rng,
    pub cfg: GenCfg,
    procs: Vec<ProcDef>,
    merkle: MerkleSpec,
    roots: Vec<[u64; 4]>,
    next_emit: u32,
    cur_locals: u32,
    in_kernel: bool,
    in_called: bool,
    no_adv: bool,
    addr_pool: Vec<u64>,
}

fn op(txt: impl Into<String>, cost: u32) -> Item {
    Item::Op { txt: txt.into(), adv: vec![], cost }
}

// (text, requirement top-first, outputs top-first, weight, min_avail==0 allowed (pure in-place))
// requirement chars: a any, u u32, b binary; fresh (always pushed right before): Z non-zero felt,
// N non-zero u32, S <= 63, s <= 31
struct Spec(&'static str, &'static str, &'static str, u32, bool);

const FIELD_OPS: &[Spec] = &[
    Spec("add", "aa", "a", 6, false),
    Spec("sub", "aa", "a", 4, false),
    Spec("mul", "aa", "a", 5, false),
    Spec("div", "Za", "a", 2, false),
    Spec("neg", "a", "a", 3, true),
    Spec("inv", "Z", "a", 2, false),
    Spec("pow2", "S", "a", 2, false),
    Spec("exp", "AZ", "a", 1, false),
    Spec("exp.u7", "sZ", "a", 1, false),
    Spec("ilog2", "Z", "u", 2, false),
    Spec("not", "b", "b", 3, true),
    Spec("and", "bb", "b", 3, false),
    Spec("or", "bb", "b", 3, false),
    Spec("xor", "bb", "b", 2, false),
    Spec("eq", "aa", "b", 4, false),
    Spec("neq", "aa", "b", 3, false),
    Spec("lt", "aa", "b", 2, false),
    Spec("lte", "aa", "b", 2, false),
    Spec("gt", "aa", "b", 2, false),
    Spec("gte", "aa", "b", 2, false),
    Spec("is_odd", "a", "b", 2, false),
    Spec("eqw", "aaaaaaaa", "baaaaaaaa", 2, false),
    Spec("ext2add", "aaaa", "aa", 2, false),
    Spec("ext2sub", "aaaa", "aa", 2, false),
    Spec("ext2mul", "aaaa", "aa", 3, false),
    Spec("ext2neg", "aa", "aa", 1, false),
    Spec("ext2inv", "Za", "aa", 2, false),
    Spec("ext2div", "Zaaa", "aa", 2, false),
];

const U32_OPS: &[Spec] = &[
    Spec("u32test", "a", "ba", 2, false),
    Spec("u32testw", "aaaa", "baaaa", 1, false),
    Spec("u32assert", "u", "u", 2, false),
    Spec("u32assert2", "uu", "uu", 3, false),
    Spec("u32assertw", "uuuu", "uuuu", 1, false),
    Spec("u32cast", "a", "u", 3, false),
    Spec("u32split", "a", "uu", 4, false),
    Spec("u32overflowing_add", "uu", "bu", 4, false),
    Spec("u32wrapping_add", "uu", "u", 4, false),
    Spec("u32overflowing_add3", "uuu", "uu", 3, false),
    Spec("u32wrapping_add3", "uuu", "u", 2, false),
    Spec("u32overflowing_sub", "uu", "bu", 4, false),
    Spec("u32wrapping_sub", "uu", "u", 3, false),
    Spec("u32overflowing_mul", "uu", "uu", 4, false),
    Spec("u32wrapping_mul", "uu", "u", 3, false),
    Spec("u32overflowing_madd", "uuu", "uu", 3, false),
    Spec("u32wrapping_madd", "uuu", "u", 2, false),
    Spec("u32div", "Nu", "u", 3, false),
    Spec("u32mod", "Nu", "u", 3, false),
    Spec("u32divmod", "Nu", "uu", 3, false),
    Spec("u32and", "uu", "u", 5, false),
    Spec("u32or", "uu", "u", 3, false),
    Spec("u32xor", "uu", "u", 5, false),
    Spec("u32not", "u", "u", 3, false),
    Spec("u32shl", "su", "u", 2, false),
    Spec("u32shr", "su", "u", 2, false),
    Spec("u32rotl", "su", "u", 2, false),
    Spec("u32rotr", "su", "u", 2, false),
    Spec("u32popcnt", "u", "u", 2, false),
    Spec("u32clz", "u", "u", 2, false),
    Spec("u32ctz", "u", "u", 2, false),
    Spec("u32clo", "u", "u", 2, false),
    Spec("u32cto", "u", "u", 2, false),
    Spec("u32lt", "uu", "b", 2, false),
    Spec("u32lte", "uu", "b", 2, false),
    Spec("u32gt", "uu", "b", 2, false),
    Spec("u32gte", "uu", "b", 2, false),
    Spec("u32min", "uu", "u", 2, false),
    Spec("u32max", "uu", "u", 2, false),
];

const CRYPTO_OPS: &[Spec] = &[
    Spec("hash", "aaaa", "aaaa", 3, false),
    Spec("hmerge", "aaaaaaaa", "aaaa", 3, false),
    Spec("hperm", "aaaaaaaaaaaa", "aaaaaaaaaaaa", 5, true),
];

impl<'a> Gen<'a> {
    pub fn new(rng: &'a mut Rng, cfg: GenCfg) -> Self {
        let mut addr_pool: Vec<u64> = vec![0, 1, 2, 3, 7, 100, 1000];
        if cfg.range_heavy {
            for _ in 0..24 {
                addr_pool.push(rng.below(1 << 32));
            }
        } else {
            addr_pool.push(rng.below(1 << 32));
            addr_pool.push((1 << 32) - 1);
            addr_pool.push(1 << 31);
        }
        Gen { rng, cfg, procs: vec![], merkle: MerkleSpec::default(), roots: vec![], next_emit: 1, cur_locals: 0, in_kernel: false, in_called: false, no_adv: false, addr_pool }
    }

    fn val(&mut self, req: u8) -> u64 {
        match req {
            b'u' => {
                if self.cfg.range_heavy {
                    self.rng.below(1 << 32)
                } else {
                    self.rng.u32v()
                }
            }
            b'b' => self.rng.below(2),
            b'Z' => {
                let v = self.rng.felt();
                if v == 0 {
                    1
                } else {
                    v
                }
            }
            b'N' => {
                let v = self.rng.u32v();
                if v == 0 {
                    1
                } else {
                    v
                }
            }
            b'S' => {
                if self.rng.chance(1, 4) {
                    *self.rng.pick(&[0u64, 1, 31, 32, 62, 63])
                } else {
                    self.rng.below(64)
                }
            }
            b's' => {
                if self.rng.chance(1, 4) {
                    *self.rng.pick(&[0u64, 1, 15, 16, 30, 31])
                } else {
                    self.rng.below(32)
                }
            }
            _ => self.rng.felt(),
        }
    }

    fn push_val(&mut self, st: &mut St, out: &mut Vec<Item>, req: u8) {
        let v = self.val(req);
        // hex form now and then
        let txt = if self.rng.chance(1, 8) {
            let h = format!("{:x}", v);
            if h.len() % 2 == 1 { format!("push.0x0{}", h) } else { format!("push.0x{}", h) }
        } else {
            format!("push.{}", v)
        };
        out.push(op(txt, 1 + (v > 1) as u32));
        st.push(Kind::of_value(v));
    }

    /// makes the top `req.len()` elements satisfy `req` (top-first), pushing fresh operands if needed
    fn ensure(&mut self, st: &mut St, out: &mut Vec<Item>, req: &str, inplace_ok: bool) {
        let r = req.as_bytes();
        let fresh = r.iter().take_while(|c| c.is_ascii_uppercase() || **c == b's').count();
        let rest = &r[fresh..];
        let n = rest.len();
        let mut ok = inplace_ok || st.avail >= n;
        if ok {
            for (i, c) in rest.iter().enumerate() {
                if !st.top(i).sat(*c) {
                    ok = false;
                    break;
                }
            }
        }
        if !ok {
            // single Any -> u32 conversion instead of a fresh push, sometimes
            if n == 1 && rest[0] == b'u' && st.avail >= 1 && self.rng.chance(1, 2) {
                out.push(op("u32cast", 2));
                st.pop();
                st.push(U32);
            } else {
                for c in rest.iter().rev() {
                    self.push_val(st, out, *c);
                }
            }
        }
        for c in r[..fresh].iter().rev() {
            self.push_val(st, out, *c);
        }
    }

    fn apply(&mut self, st: &mut St, req_len: usize, outk: &str, inplace: bool) {
        if inplace && st.avail < req_len {
            // pure in-place operation reaching below the body's own elements
            st.ensure_len(req_len);
            let l = st.kinds.len();
            for (i, c) in outk.bytes().enumerate() {
                st.kinds[l - 1 - i] = Kind::of_char(c);
            }
            return;
        }
        for _ in 0..req_len {
            st.pop();
        }
        for c in outk.bytes().rev() {
            st.push(Kind::of_char(c));
        }
    }

    fn spec_op(&mut self, st: &mut St, out: &mut Vec<Item>, table: &[Spec]) {
        let ws: Vec<u32> = table.iter().map(|s| s.3).collect();
        let s = &table[self.rng.weighted(&ws)];
        let mut txt = s.0.to_string();
        let mut req = s.1.to_string();
        // immediate forms
        if self.rng.chance(1, 5) {
            match s.0 {
                "add" | "sub" | "mul" | "eq" | "neq" => {
                    txt = format!("{}.{}", s.0, self.rng.felt());
                    req = "a".into();
                }
                "div" => {
                    txt = format!("div.{}", self.val(b'Z'));
                    req = "a".into();
                }
                "exp" => {
                    txt = format!("exp.{}", self.rng.below(70));
                    req = "Z".into();
                }
                "u32wrapping_add" | "u32overflowing_add" | "u32wrapping_sub" | "u32overflowing_sub" | "u32wrapping_mul" | "u32overflowing_mul" => {
                    txt = format!("{}.{}", s.0, self.rng.u32v());
                    req = "u".into();
                }
                "u32div" | "u32mod" | "u32divmod" => {
                    txt = format!("{}.{}", s.0, self.val(b'N'));
                    req = "u".into();
                }
                "u32shl" | "u32shr" | "u32rotl" | "u32rotr" => {
                    txt = format!("{}.{}", s.0, self.rng.below(32));
                    req = "u".into();
                }
                _ => {}
            }
        }
        self.ensure(st, out, &req, s.4);
        let cost = match s.0 {
            "exp" => 80,
            "lt" | "lte" | "gt" | "gte" => 16,
            "ilog2" | "u32clz" | "u32ctz" | "u32clo" | "u32cto" | "u32popcnt" => 40,
            "pow2" => 16,
            _ => 4,
        };
        out.push(op(txt, cost));
        self.apply(st, req.len(), s.2, s.4);
    }

    fn stack_op(&mut self, st: &mut St, out: &mut Vec<Item>) {
        let c = self.rng.below(16);
        match c {
            0 => {
                if st.avail >= 1 {
                    out.push(op("drop", 1));
                    st.pop();
                } else if st.exact {
                    // floor behaviour: the depth stays at 16
                    out.push(op("drop", 1));
                    st.kinds.pop();
                }
            }
            1 => {
                if st.avail >= 4 {
                    out.push(op("dropw", 4));
                    for _ in 0..4 {
                        st.pop();
                    }
                }
            }
            2 => {
                out.push(op("padw", 4));
                for _ in 0..4 {
                    st.push(Bin);
                }
            }
            3 | 4 => {
                let n = self.rng.below(16) as usize;
                out.push(op(if n == 0 && self.rng.chance(1, 2) { "dup".to_string() } else { format!("dup.{}", n) }, 1));
                let k = st.top(n);
                st.push(k);
            }
            5 => {
                let n = self.rng.below(4) as usize;
                out.push(op(format!("dupw.{}", n), 4));
                let ks: Vec<Kind> = (0..4).map(|i| st.top(n * 4 + i)).collect();
                for k in ks.iter().rev() {
                    st.push(*k);
                }
            }
            6 | 7 => {
                let n = self.rng.range(1, 15) as usize;
                out.push(op(if n == 1 && self.rng.chance(1, 2) { "swap".to_string() } else { format!("swap.{}", n) }, 1));
                st.ensure_len(n + 1);
                let l = st.kinds.len();
                st.kinds.swap(l - 1, l - 1 - n);
            }
            8 => {
                let n = self.rng.range(1, 3) as usize;
                out.push(op(format!("swapw.{}", n), 1));
                st.ensure_len(4 * n + 4);
                let l = st.kinds.len();
                for i in 0..4 {
                    st.kinds.swap(l - 1 - i, l - 1 - i - 4 * n);
                }
            }
            9 => {
                out.push(op("swapdw", 1));
                st.ensure_len(16);
                let l = st.kinds.len();
                for i in 0..8 {
                    st.kinds.swap(l - 1 - i, l - 1 - i - 8);
                }
            }
            10 | 11 => {
                let n = self.rng.range(2, 15) as usize;
                let up = self.rng.chance(1, 2);
                out.push(op(format!("{}.{}", if up { "movup" } else { "movdn" }, n), 1));
                st.ensure_len(n + 1);
                let l = st.kinds.len();
                if up {
                    let k = st.kinds.remove(l - 1 - n);
                    st.kinds.push(k);
                } else {
                    let k = st.kinds.pop().unwrap();
                    st.kinds.insert(l - 1 - n, k);
                }
            }
            12 => {
                let n = self.rng.range(2, 3) as usize;
                let up = self.rng.chance(1, 2);
                out.push(op(format!("{}.{}", if up { "movupw" } else { "movdnw" }, n), 2));
                st.ensure_len(4 * n + 4);
                let l = st.kinds.len();
                if up {
                    let ks: Vec<Kind> = st.kinds.drain(l - 4 * n - 4..l - 4 * n).collect();
                    st.kinds.extend(ks);
                } else {
                    let ks: Vec<Kind> = st.kinds.drain(l - 4..).collect();
                    let at = l - 4 - 4 * n;
                    for (i, k) in ks.into_iter().enumerate() {
                        st.kinds.insert(at + i, k);
                    }
                }
            }
            13 => {
                let word = self.rng.chance(1, 3);
                let drop = self.rng.chance(1, 2);
                let (txt, n) = match (word, drop) {
                    (false, false) => ("cswap", 3),
                    (false, true) => ("cdrop", 3),
                    (true, false) => ("cswapw", 9),
                    (true, true) => ("cdropw", 9),
                };
                let req: String = std::iter::once('b').chain(std::iter::repeat('a').take(n - 1)).collect();
                self.ensure(st, out, &req, false);
                out.push(op(txt, 2));
                for _ in 0..n {
                    st.pop();
                }
                let outs = match (word, drop) {
                    (false, false) => 2,
                    (false, true) => 1,
                    (true, false) => 8,
                    (true, true) => 4,
                };
                for _ in 0..outs {
                    st.push(Any);
                }
            }
            _ => {
                // constant pushes, incl. multi-value form
                if self.rng.chance(1, 4) {
                    let n = self.rng.range(2, 6);
                    let vals: Vec<u64> = (0..n).map(|_| self.rng.felt()).collect();
                    out.push(op(format!("push.{}", vals.iter().map(|v| v.to_string()).collect::<Vec<_>>().join(".")), 2 * n as u32));
                    for v in vals {
                        st.push(Kind::of_value(v));
                    }
                } else {
                    let r = *self.rng.pick(&[b'a', b'u', b'b']);
                    self.push_val(st, out, r);
                }
            }
        }
    }

    fn addr(&mut self) -> u64 {
        *self.rng.pick(&self.addr_pool.clone())
    }

    fn mem_op(&mut self, st: &mut St, out: &mut Vec<Item>) {
        let c = self.rng.below(if self.cur_locals > 0 { 14 } else { 9 });
        let a = self.addr();
        let imm = self.rng.chance(1, 2);
        match c {
            0 => {
                // mem_load
                if imm {
                    out.push(op(format!("mem_load.{}", a), 2));
                } else {
                    out.push(op(format!("push.{}", a), 2));
                    out.push(op("mem_load", 1));
                }
                st.push(Any);
            }
            1 => {
                // mem_loadw: overwrites the top word
                if st.avail < 4 {
                    out.push(op("padw", 4));
                    for _ in 0..4 {
                        st.push(Bin);
                    }
                }
                if imm {
                    out.push(op(format!("mem_loadw.{}", a), 2));
                } else {
                    out.push(op(format!("push.{}", a), 2));
                    out.push(op("mem_loadw", 1));
                }
                for _ in 0..4 {
                    st.pop();
                }
                for _ in 0..4 {
                    st.push(Any);
                }
            }
            2 | 3 => {
                // mem_store
                self.ensure(st, out, "a", false);
                if imm {
                    out.push(op(format!("mem_store.{}", a), 3));
                } else {
                    out.push(op(format!("push.{}", a), 2));
                    out.push(op("mem_store", 2));
                }
                st.pop();
            }
            4 | 5 => {
                self.ensure(st, out, "aaaa", false);
                if imm {
                    out.push(op(format!("mem_storew.{}", a), 2));
                } else {
                    out.push(op(format!("push.{}", a), 2));
                    out.push(op("mem_storew", 1));
                }
            }
            6 => {
                // mem_stream gadget
                let a = if a >= (1 << 32) - 2 { a - 2 } else { a };
                out.push(op(format!("push.{}", a), 2));
                out.push(op("padw", 4));
                out.push(op("padw", 4));
                out.push(op("padw", 4));
                out.push(op("mem_stream", 1));
                for _ in 0..13 {
                    st.push(Any);
                }
                // the pointer is a u32
                let l = st.kinds.len();
                st.kinds[l - 13] = U32;
            }
            7 => {
                // adv_pipe gadget
                if self.no_adv {
                    return;
                }
                let a = if a >= (1 << 32) - 2 { a - 2 } else { a };
                out.push(op(format!("push.{}", a), 2));
                out.push(op("padw", 4));
                out.push(op("padw", 4));
                out.push(op("padw", 4));
                out.push(Item::Op { txt: "adv_pipe".into(), adv: vec![b'a'; 8], cost: 1 });
                for _ in 0..13 {
                    st.push(Any);
                }
                let l = st.kinds.len();
                st.kinds[l - 13] = U32;
            }
            8 => {
                // rcomb_base gadget: 16 fresh elements with u32 pointers at positions 13, 14. The
                // word read through position 14 (randomness) must have the form [a0, a1, 0, 0]: the
                // operation's bus request assumes a zero upper half (DESIGN F26), so the gadget
                // writes such a word to a dedicated address first.
                let a14 = (1u64 << 29) + self.rng.below(1 << 20);
                let mut a13 = self.addr() % (1 << 31);
                if a13 == a14 {
                    // two reads of one address in one cycle are not representable in the memory chiplet
                    a13 += 1;
                }
                out.push(op(format!("push.{}.{}.0.0", self.rng.felt(), self.rng.felt()), 6));
                out.push(op(format!("mem_storew.{}", a14), 3));
                out.push(op("dropw", 4));
                out.push(op(format!("push.{}.{}.{}", self.rng.felt(), a14, a13), 6));
                for _ in 0..3 {
                    st.push(Any);
                }
                for _ in 0..13 {
                    self.push_val(st, out, b'a');
                }
                out.push(op("rcomb_base", 1));
                let l = st.kinds.len();
                for i in 0..16 {
                    st.kinds[l - 1 - i] = Any;
                }
            }
            9 => {
                let i = self.rng.below(self.cur_locals as u64);
                out.push(op(format!("loc_load.{}", i), 3));
                st.push(Any);
            }
            10 => {
                let i = self.rng.below(self.cur_locals as u64);
                self.ensure(st, out, "a", false);
                out.push(op(format!("loc_store.{}", i), 4));
                st.pop();
            }
            11 => {
                let i = self.rng.below(self.cur_locals as u64);
                self.ensure(st, out, "aaaa", false);
                out.push(op(format!("loc_storew.{}", i), 3));
            }
            12 => {
                let i = self.rng.below(self.cur_locals as u64);
                if st.avail < 4 {
                    out.push(op("padw", 4));
                    for _ in 0..4 {
                        st.push(Bin);
                    }
                }
                out.push(op(format!("loc_loadw.{}", i), 3));
                for _ in 0..4 {
                    st.pop();
                }
                for _ in 0..4 {
                    st.push(Any);
                }
            }
            _ => {
                let i = self.rng.below(self.cur_locals as u64);
                out.push(op(format!("locaddr.{}", i), 2));
                st.push(U32);
            }
        }
    }

    fn new_tree(&mut self) -> usize {
        let depth = self.rng.range(1, 5) as u32;
        let n = 1usize << depth;
        let leaves: Vec<[u64; 4]> = (0..n).map(|_| [self.rng.felt(), self.rng.felt(), self.rng.below(P), self.rng.below(P)]).collect();
        self.merkle.trees.push(leaves);
        self.merkle.trees.len() - 1
    }

    fn crypto_op(&mut self, st: &mut St, out: &mut Vec<Item>) {
        if self.rng.chance(3, 5) {
            self.spec_op(st, out, CRYPTO_OPS);
            return;
        }
        // Merkle gadgets over a tree whose root is known when the program is written
        let t = if self.merkle.trees.is_empty() || self.rng.chance(1, 4) { self.new_tree() } else { self.rng.usize(self.merkle.trees.len()) };
        let leaves = self.merkle.trees[t].clone();
        let depth = leaves.len().trailing_zeros() as u64;
        let root = crate::model::merkle::root_of(&leaves);
        let idx = self.rng.below(leaves.len() as u64);
        let r = format!("push.{}.{}.{}.{}", root[0], root[1], root[2], root[3]);
        match self.rng.below(4) {
            0 => {
                out.push(op(r, 8));
                out.push(op(format!("push.{}.{}", idx, depth), 4));
                out.push(op("mtree_get", 10));
                for _ in 0..8 {
                    st.push(Any);
                }
            }
            1 => {
                let v = leaves[idx as usize];
                out.push(op(r, 8));
                out.push(op(format!("push.{}.{}", idx, depth), 4));
                out.push(op(format!("push.{}.{}.{}.{}", v[0], v[1], v[2], v[3]), 8));
                out.push(op("mtree_verify", 2));
                for _ in 0..10 {
                    st.push(Any);
                }
            }
            2 => {
                // sometimes the value already stored in the leaf (an update that changes nothing)
                let nv = if self.rng.chance(1, 4) { leaves[idx as usize] } else { [self.rng.felt(), self.rng.felt(), self.rng.felt(), self.rng.felt()] };
                out.push(op(format!("push.{}.{}.{}.{}", nv[0], nv[1], nv[2], nv[3]), 8));
                out.push(op(r, 8));
                out.push(op(format!("push.{}.{}", idx, depth), 4));
                out.push(op("mtree_set", 30));
                for _ in 0..8 {
                    st.push(Any);
                }
                if self.rng.chance(1, 2) {
                    // read the updated leaf back from the new root
                    out.push(op("dropw", 4));
                    out.push(op(format!("push.{}.{}", idx, depth), 4));
                    out.push(op("mtree_get", 10));
                    for _ in 0..4 {
                        st.pop();
                    }
                    for _ in 0..4 {
                        st.push(Any);
                    }
                    for _ in 0..4 {
                        st.push(Any);
                    }
                    for _ in 0..4 {
                        st.pop();
                    }
                }
            }
            _ => {
                let t2 = if self.rng.chance(1, 2) { self.new_tree() } else { t };
                let root2 = crate::model::merkle::root_of(&self.merkle.trees[t2].clone());
                out.push(op(r, 8));
                out.push(op(format!("push.{}.{}.{}.{}", root2[0], root2[1], root2[2], root2[3]), 8));
                out.push(op("mtree_merge", 20));
                for _ in 0..4 {
                    st.push(Any);
                }
            }
        }
    }

    fn adv_op(&mut self, st: &mut St, out: &mut Vec<Item>) {
        if self.no_adv {
            return;
        }
        match self.rng.below(3) {
            0 | 1 => {
                let hi = if self.rng.chance(1, 4) { 16 } else { 4 };
                let n = self.rng.range(1, hi) as usize;
                let kinds: Vec<u8> = (0..n).map(|_| *self.rng.pick(&[b'a', b'u', b'b'])).collect();
                out.push(Item::Op { txt: format!("adv_push.{}", n), adv: kinds.clone(), cost: n as u32 });
                for k in kinds {
                    st.push(Kind::of_char(k));
                }
            }
            _ => {
                if st.avail < 4 {
                    out.push(op("padw", 4));
                    for _ in 0..4 {
                        st.push(Bin);
                    }
                }
                out.push(Item::Op { txt: "adv_loadw".into(), adv: vec![b'a'; 4], cost: 1 });
                for _ in 0..4 {
                    st.pop();
                }
                for _ in 0..4 {
                    st.push(Any);
                }
            }
        }
    }

    fn misc_op(&mut self, st: &mut St, out: &mut Vec<Item>) {
        match self.rng.below(9) {
            8 => {
                // fri_ext2fold4 on a consistent operand set: the previous value equals the query value
                // of the domain segment; 16 operands pushed, 15 result elements dropped again
                let v: Vec<u64> = (0..8).map(|_| if self.rng.chance(1, 8) { self.rng.below(2) } else { self.rng.felt() }).collect();
                let d = self.rng.below(4) as usize;
                let poe = 1 + self.rng.below(P - 1);
                let vals = [self.rng.below(1 << 30), self.rng.felt(), self.rng.felt(), v[2 * d], v[2 * d + 1], poe, d as u64, self.rng.below(1 << 20), v[0], v[1], v[2], v[3], v[4], v[5], v[6], v[7]];
                for x in vals {
                    out.push(op(format!("push.{}", x), 1));
                }
                out.push(op("fri_ext2fold4", 1));
                for _ in 0..3 {
                    out.push(op("dropw", 4));
                }
                for _ in 0..3 {
                    out.push(op("drop", 1));
                }
            }
            0 => {
                out.push(op("sdepth", 1));
                st.push(U32);
            }
            1 => {
                out.push(op("clk", 1));
                st.push(U32);
            }
            2 => {
                // assertion that holds: compare an element with itself
                let n = self.rng.below(8);
                out.push(op(format!("dup.{}", n), 1));
                out.push(op("dup", 1));
                if self.rng.chance(1, 2) {
                    out.push(op("assert_eq", 2));
                } else {
                    out.push(op("eq", 1));
                    out.push(op(if self.rng.chance(1, 2) { "assert".to_string() } else { format!("assert.err={}", self.rng.below(1000)) }, 1));
                }
            }
            3 => {
                out.push(op("push.0", 1));
                out.push(op("assertz", 2));
            }
            4 => {
                let n = self.rng.below(3);
                out.push(op(format!("dupw.{}", n), 4));
                out.push(op("dupw", 4));
                out.push(op("assert_eqw", 12));
            }
            5 => {
                if self.in_kernel {
                    if st.avail < 4 {
                        out.push(op("padw", 4));
                        for _ in 0..4 {
                            st.push(Bin);
                        }
                    }
                    out.push(op("caller", 1));
                    for _ in 0..4 {
                        st.pop();
                    }
                    for _ in 0..4 {
                        st.push(Any);
                    }
                } else {
                    out.push(op("sdepth", 1));
                    st.push(U32);
                }
            }
            6 => {
                // fmp traffic through locaddr is covered in mem_op; here: a nop-like pair
                out.push(op("push.1", 1));
                out.push(op("drop", 1));
            }
            _ => {
                self.push_val(st, out, b'a');
                out.push(op("neg", 1));
                st.pop();
                st.push(Any);
            }
        }
    }

    fn deco_op(&mut self, out: &mut Vec<Item>) {
                let id = self.next_emit;
        self.next_emit += 1;
        let txt = match self.rng.below(6) {
            0 | 1 | 2 => format!("emit.{}", id),
            3 => format!("trace.{}", id),
            4 => "debug.stack".to_string(),
            _ => "debug.stack.4".to_string(),
        };
        // half of them bare (possibly first / last / only item of a block: the assembler has to attach
        // them to a neighbouring span or make a NOOP span), half between two real operations
        if self.rng.chance(1, 2) {
            out.push(op(txt, 0));
            return;
        }
        out.push(op("push.0", 1));
        out.push(op(txt, 0));
        out.push(op("drop", 1));
    }

    fn chunk(&mut self, st: &mut St, out: &mut Vec<Item>) {
        let n = self.rng.range(1, self.cfg.chunk_max as u64) as usize;
        let ws = [self.cfg.w_field, self.cfg.w_u32, self.cfg.w_stack, self.cfg.w_mem, self.cfg.w_crypto, self.cfg.w_adv, self.cfg.w_misc, self.cfg.w_deco];
        for _ in 0..n {
            match self.rng.weighted(&ws) {
                0 => self.spec_op(st, out, FIELD_OPS),
                1 => self.spec_op(st, out, U32_OPS),
                2 => self.stack_op(st, out),
                3 => self.mem_op(st, out),
                4 => self.crypto_op(st, out),
                5 => self.adv_op(st, out),
                6 => self.misc_op(st, out),
                _ => self.deco_op(out),
            }
            // keep the stack from growing without bound
            if st.avail > 60 {
                while st.avail > 40 {
                    out.push(op("dropw", 4));
                    for _ in 0..4 {
                        st.pop();
                    }
                }
            }
        }
    }

    /// body that leaves `avail` as it found it
    fn neutral_body(&mut self, st: &mut St, nest: u32) -> Vec<Item> {
        let entry = st.avail;
        let mut out = vec![];
        self.body_items(st, &mut out, nest);
        while st.avail > entry {
            if st.avail - entry >= 4 && self.rng.chance(1, 2) {
                out.push(op("dropw", 4));
                for _ in 0..4 {
                    st.pop();
                }
            } else {
                out.push(op("drop", 1));
                st.pop();
            }
        }
        while st.avail < entry {
            self.push_val(st, &mut out, b'a');
        }
        if out.is_empty() {
            out.push(op("push.0", 1));
            out.push(op("drop", 1));
        }
        out
    }

    fn body_items(&mut self, st: &mut St, out: &mut Vec<Item>, nest: u32) {
        let parts = self.rng.range(1, 4);
        for _ in 0..parts {
            let ctrl = nest < self.cfg.max_nest && self.rng.below(10) < self.cfg.w_ctrl as u64;
            if !ctrl {
                self.chunk(st, out);
                continue;
            }
            match self.rng.below(10) {
                0 | 1 | 2 => {
                    // if / else
                    let cond = if self.no_adv {
                        match self.rng.below(2) {
                            0 => Cond::Const(self.rng.chance(1, 2)),
                            _ => Cond::Computed,
                        }
                    } else {
                        match self.rng.below(4) {
                            0 => Cond::Const(self.rng.chance(1, 2)),
                            1 => Cond::Computed,
                            _ => Cond::Advice,
                        }
                    };
                    let saved_no_adv = self.no_adv;
                    if matches!(cond, Cond::Computed) {
                        self.no_adv = true;
                        // condition: compare two stack elements
                        let (a, b) = (self.rng.below(8), self.rng.below(8));
                        out.push(op(format!("dup.{}", a), 1));
                        out.push(op(format!("dup.{}", b + 1), 1));
                        out.push(op(*self.rng.pick(&["eq", "neq", "lt", "gt"]), 8));
                    }
                    st.forget();
                    let then = self.neutral_body(st, nest + 1);
                    st.forget();
                    let els = if self.rng.chance(1, 4) { vec![] } else { self.neutral_body(st, nest + 1) };
                    st.forget();
                    self.no_adv = saved_no_adv;
                    out.push(Item::If { then, els, cond });
                }
                3 | 4 => {
                    if self.no_adv {
                        self.chunk(st, out);
                        continue;
                    }
                    st.forget();
                    let body = self.neutral_body(st, nest + 1);
                    st.forget();
                    out.push(Item::While { body });
                }
                5 | 6 => {
                    let n = if self.rng.chance(1, 8) { self.rng.range(6, 20) } else { self.rng.range(1, 5) } as u32;
                    st.forget();
                    let body = self.neutral_body(st, nest + 1);
                    st.forget();
                    out.push(Item::Repeat { n, body });
                }
                _ => {
                    // procedure invocation
                    let cands: Vec<usize> = (0..self.procs.len()).collect();
                    if cands.is_empty() {
                        self.chunk(st, out);
                        continue;
                    }
                    let idx = *self.rng.pick(&cands);
                    let p = self.procs[idx].clone();
                    let how: &'static str = if p.kernel {
                        if self.in_kernel {
                            "exec"
                        } else {
                            "syscall"
                        }
                    } else if self.in_kernel {
                        // kernel procedures only exec other kernel-module procedures
                        self.chunk(st, out);
                        continue;
                    } else if p.exported {
                        // "called" procedures: entered with depth 16 exactly
                        match self.rng.below(3) {
                            0 if self.cfg.allow_dyn => "dyncall",
                            _ => "call",
                        }
                    } else {
                        match self.rng.below(3) {
                            0 if self.cfg.allow_dyn => "dynexec",
                            _ => "exec",
                        }
                    };
                    if self.no_adv && proc_uses_adv(&p.body, &self.procs) {
                        self.chunk(st, out);
                        continue;
                    }
                    st.forget();
                    out.push(Item::Invoke { how, idx });
                }
            }
        }
    }

    fn gen_proc(&mut self, name: String, kernel: bool, called: bool) -> ProcDef {
        let locals = if self.rng.chance(1, 2) { self.rng.range(1, 6) as u32 } else { 0 };
        self.cur_locals = locals;
        self.in_kernel = kernel;
        self.in_called = called;
        let mut st = St { kinds: vec![], avail: 0, exact: called || kernel };
        let nest = self.cfg.max_nest.saturating_sub(1).min(2);
        let saved = self.cfg.max_nest;
        self.cfg.max_nest = nest;
        let mut body = self.neutral_body(&mut st, 0);
        // tiny bodies (in particular decorator-only ones) would share one MAST root with each other
        // (F32; a kernel refuses duplicates): make them distinct
        let real = body.iter().filter(|it| !matches!(it, Item::Op { cost: 0, .. })).count();
        if real < 4 {
            let tag = 7000 + self.procs.len() as u64;
            body.insert(0, op(format!("push.{}", tag), 1));
            body.insert(1, op("drop", 1));
        }
        self.cfg.max_nest = saved;
        self.cur_locals = 0;
        self.in_kernel = false;
        self.in_called = false;
        ProcDef { name, locals, body, kernel, exported: called }
    }

    pub fn generate(mut self) -> GenProgram {
        // kernel procedures first (they can only use each other), then ordinary ones (leaf first)
        for k in 0..self.cfg.n_kernel {
            let p = self.gen_proc(format!("k{}", k), true, true);
            self.procs.push(p);
        }
        for i in 0..self.cfg.n_procs {
            let called = self.cfg.allow_call && self.rng.chance(1, 2);
            let p = self.gen_proc(format!("p{}", i), false, called);
            self.procs.push(p);
        }
        let n_in = self.cfg.n_inputs;
        let inputs: Vec<u64> = (0..n_in).map(|_| self.rng.felt()).collect();
        // inputs[0] is the top of the stack
        let mut st = St { kinds: inputs.iter().rev().map(|v| Kind::of_value(*v)).collect(), avail: n_in.saturating_sub(16), exact: true };
        let mut body = vec![];
        self.body_items(&mut st, &mut body, 0);
        if body.is_empty() {
            body.push(op("push.1", 1));
            body.push(op("drop", 1));
        }
        // final depth: leave it deep sometimes (outputs deeper than 16), otherwise trim
        if st.avail > 0 && self.rng.chance(2, 3) {
            let keep = if self.rng.chance(1, 2) { 0 } else { self.rng.below(st.avail as u64 + 1) as usize };
            while st.avail > keep {
                body.push(op("drop", 1));
                st.pop();
            }
        }
        let mut prog = GenProgram { procs: self.procs, body, stack_inputs: inputs, advice_stack: vec![], merkle: self.merkle, dyn_ops: 0, imports: vec![], oversize: false };
        // dynamic walk: decisions and advice values in execution order
        let mut w = Walk { rng: self.rng, adv: vec![], ops: 0, cap: self.cfg.max_dyn_ops, long: self.cfg.long_loops, overflow: false };
        w.items(&prog.body, &prog.procs);
        prog.advice_stack = w.adv;
        prog.dyn_ops = w.ops;
        prog.oversize = w.overflow;
        prog
    }
}

fn proc_uses_adv(items: &[Item], procs: &[ProcDef]) -> bool {
    items.iter().any(|it| match it {
        Item::Op { adv, .. } => !adv.is_empty(),
        Item::If { then, els, cond } => matches!(cond, Cond::Advice) || proc_uses_adv(then, procs) || proc_uses_adv(els, procs),
        Item::While { .. } => true,
        Item::Repeat { body, .. } => proc_uses_adv(body, procs),
        Item::Invoke { idx, .. } => proc_uses_adv(&procs[*idx].body, procs),
    })
}

struct Walk<'a> {
    rng: &'a mut Rng,
    adv: Vec<u64>,
    ops: u64,
    cap: u64,
    long: bool,
    overflow: bool,
}

impl<'a> Walk<'a> {
    fn adv_val(&mut self, k: u8) -> u64 {
        match k {
            b'u' => self.rng.u32v(),
            b'b' => self.rng.below(2),
            _ => self.rng.felt(),
        }
    }
    fn items(&mut self, items: &[Item], procs: &[ProcDef]) {
        for it in items {
            if self.ops > self.cap.saturating_mul(8) {
                self.overflow = true;
                return;
            }
            match it {
                Item::Op { adv, cost, .. } => {
                    self.ops += *cost as u64;
                    for k in adv {
                        let v = self.adv_val(*k);
                        self.adv.push(v);
                    }
                }
                Item::If { then, els, cond } => {
                    self.ops += 3;
                    match cond {
                        Cond::Advice => {
                            let b = self.rng.chance(1, 2);
                            self.adv.push(b as u64);
                            if b {
                                self.items(then, procs)
                            } else {
                                self.items(els, procs)
                            }
                        }
                        Cond::Const(b) => {
                            if *b {
                                self.items(then, procs)
                            } else {
                                self.items(els, procs)
                            }
                        }
                        Cond::Computed => {
                            // advice free on both sides: no decisions to record, but the branch that
                            // runs can be large (repeat, procedure invocations)
                            self.ops += 20 + static_cost(then, procs, 0).max(static_cost(els, procs, 0));
                        }
                    }
                }
                Item::While { body } => {
                    let mut k = if self.long { self.rng.range(0, 12) } else { *self.rng.pick(&[0u64, 0, 1, 1, 2, 3]) };
                    loop {
                        self.ops += 3;
                        if k == 0 || self.ops > self.cap {
                            self.adv.push(0);
                            break;
                        }
                        self.adv.push(1);
                        self.items(body, procs);
                        k -= 1;
                    }
                }
                Item::Repeat { n, body } => {
                    for _ in 0..*n {
                        self.items(body, procs);
                    }
                }
                Item::Invoke { idx, .. } => {
                    self.ops += 8;
                    self.items(&procs[*idx].body, procs);
                }
            }
        }
    }
}

/// upper estimate of the operations executed by an advice-free body (no while loops in there)
fn static_cost(items: &[Item], procs: &[ProcDef], depth: u32) -> u64 {
    if depth > 12 {
        return 1 << 20;
    }
    let mut c = 0u64;
    for it in items {
        c = c.saturating_add(match it {
            Item::Op { cost, .. } => *cost as u64,
            Item::If { then, els, .. } => 3 + static_cost(then, procs, depth + 1).max(static_cost(els, procs, depth + 1)),
            Item::While { body } => 3 + static_cost(body, procs, depth + 1),
            Item::Repeat { n, body } => (*n as u64).saturating_mul(static_cost(body, procs, depth + 1)),
            Item::Invoke { idx, .. } => 8 + static_cost(&procs[*idx].body, procs, depth + 1),
        });
    }
    c
}

// ------------------------------------------------------------------------------------------------
// rendering

fn render_items(items: &[Item], procs: &[ProcDef], ind: usize, out: &mut String) {
    let pad = "    ".repeat(ind);
    let mut line = String::new();
    let flush = |line: &mut String, out: &mut String| {
        if !line.is_empty() {
            out.push_str(&pad);
            out.push_str(line.trim_end());
            out.push('\n');
            line.clear();
        }
    };
    for it in items {
        match it {
            Item::Op { txt, .. } => {
                line.push_str(txt);
                line.push(' ');
                if line.len() > 90 {
                    flush(&mut line, out);
                }
            }
            Item::If { then, els, cond } => {
                match cond {
                    Cond::Advice => line.push_str("adv_push.1 "),
                    Cond::Const(b) => line.push_str(&format!("push.{} ", *b as u8)),
                    Cond::Computed => {}
                }
                flush(&mut line, out);
                out.push_str(&format!("{}if.true\n", pad));
                render_items(then, procs, ind + 1, out);
                if !els.is_empty() {
                    out.push_str(&format!("{}else\n", pad));
                    render_items(els, procs, ind + 1, out);
                }
                out.push_str(&format!("{}end\n", pad));
            }
            Item::While { body } => {
                line.push_str("adv_push.1 ");
                flush(&mut line, out);
                out.push_str(&format!("{}while.true\n", pad));
                render_items(body, procs, ind + 1, out);
                out.push_str(&format!("{}    adv_push.1\n", pad));
                out.push_str(&format!("{}end\n", pad));
            }
            Item::Repeat { n, body } => {
                flush(&mut line, out);
                out.push_str(&format!("{}repeat.{}\n", pad, n));
                render_items(body, procs, ind + 1, out);
                out.push_str(&format!("{}end\n", pad));
            }
            Item::Invoke { how, idx } => {
                let name = &procs[*idx].name;
                match *how {
                    "dynexec" | "dyncall" => {
                        line.push_str(&format!("procref.{} {} ", name, how));
                        // both leave the hash word on the stack: drop it (the callee is neutral)
                        line.push_str("dropw ");
                    }
                    _ => line.push_str(&format!("{}.{} ", how, name)),
                }
            }
        }
    }
    flush(&mut line, out);
}

impl GenProgram {
    pub fn kernel_source(&self) -> Option<String> {
        let ks: Vec<&ProcDef> = self.procs.iter().filter(|p| p.kernel).collect();
        if ks.is_empty() {
            return None;
        }
        let mut s = String::new();
        for p in ks {
            s.push_str(&format!("export.{}{}\n", p.name, if p.locals > 0 { format!(".{}", p.locals) } else { String::new() }));
            render_items(&p.body, &self.procs, 1, &mut s);
            s.push_str("end\n\n");
        }
        Some(s)
    }
    pub fn source(&self) -> String {
        let mut s = String::new();
        for imp in &self.imports {
            s.push_str(&format!("use.{}\n", imp));
        }
        for p in self.procs.iter().filter(|p| !p.kernel) {
            s.push_str(&format!("proc.{}{}\n", p.name, if p.locals > 0 { format!(".{}", p.locals) } else { String::new() }));
            render_items(&p.body, &self.procs, 1, &mut s);
            s.push_str("end\n\n");
        }
        s.push_str("begin\n");
        render_items(&self.body, &self.procs, 1, &mut s);
        s.push_str("end\n");
        s
    }
    /// scenario fragment shared by every property that executes generated programs
    pub fn to_json(&self) -> Value {
        json!({
            "source": self.source(),
            "kernel": self.kernel_source(),
            "stack_inputs": self.stack_inputs.iter().map(|v| v.to_string()).collect::<Vec<_>>(),
            "advice_stack": self.advice_stack.iter().map(|v| v.to_string()).collect::<Vec<_>>(),
            "merkle_trees": self.merkle.trees.iter().map(|t| t.iter().map(|l| l.iter().map(|x| x.to_string()).collect::<Vec<_>>()).collect::<Vec<_>>()).collect::<Vec<_>>(),
        })
    }
}

/// generates a program; programs whose dynamic size explodes are re-drawn with a smaller shape
pub fn generate(rng: &mut Rng, cfg: GenCfg) -> GenProgram {
    let mut cfg = cfg;
    loop {
        let p = Gen::new(rng, cfg.clone()).generate();
        if !p.oversize {
            return p;
        }
        cfg.max_nest = cfg.max_nest.saturating_sub(1);
        cfg.chunk_max = (cfg.chunk_max / 2).max(3);
    }
}

/// A depth-neutral, advice-free body (usable as the body of any exec'd / called library procedure),
/// rendered as text with the given indentation.
pub fn neutral_body_text(rng: &mut Rng, cfg: GenCfg, locals: u32, indent: usize) -> String {
    let mut cfg = cfg;
    cfg.n_procs = 0;
    cfg.n_kernel = 0;
    let mut g = Gen::new(rng, cfg);
    g.no_adv = true;
    g.cur_locals = locals;
    let mut st = St { kinds: vec![], avail: 0, exact: false };
    let body = g.neutral_body(&mut st, 0);
    let mut s = String::new();
    render_items(&body, &[], indent, &mut s);
    s
}
