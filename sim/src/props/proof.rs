//! C01 — every successful execution is provable and its proof verifies (fault-free leg of S2)
//! C02 — a proof binds to its statement; altered statements or proofs are rejected (fault leg of S2)

use crate::framework::*;
use crate::gen::prog::{generate, GenCfg};
use crate::rng::{Fnv, Rng, P};
use crate::world::host::HostCfg;
use crate::world::vm::{self, ProgSpec};
use miden_air::{ExecutionProof, FieldExtension, HashFunction, ProvingOptions};
use processor::{Digest, ExecutionOptions, Kernel, Program, ProgramInfo, StackInputs, StackOutputs};
use serde_json::{json, Value};
use vm_core::utils::{Deserializable, Serializable, SliceReader};
use vm_core::{Felt, StarkField, Word};

pub struct C01;
pub struct C02;

fn proving_options(set: &str, exec: ExecutionOptions) -> ProvingOptions {
    let o = match set {
        "b128" => ProvingOptions::with_128_bit_security(false),
        "r96" => ProvingOptions::with_96_bit_security(true),
        "r128" => ProvingOptions::with_128_bit_security(true),
        _ => ProvingOptions::with_96_bit_security(false),
    };
    o.with_execution_options(exec)
}
fn target_level(set: &str) -> u32 {
    if set.ends_with("128") {
        128
    } else {
        96
    }
}

fn small_cfg(rng: &mut Rng, tiny: bool) -> GenCfg {
    let mut cfg = GenCfg::swarm(rng);
    if tiny {
        cfg.max_nest = cfg.max_nest.min(1);
        cfg.chunk_max = cfg.chunk_max.min(8);
        cfg.n_procs = cfg.n_procs.min(1);
        cfg.max_dyn_ops = 120;
        cfg.w_crypto = cfg.w_crypto.min(1);
        cfg.long_loops = false;
    } else {
        cfg.max_dyn_ops = 2500;
        cfg.chunk_max = cfg.chunk_max.min(90);
    }
    cfg
}

pub struct Session {
    pub program: Program,
    pub info_bytes: Vec<u8>,
    pub inputs_bytes: Vec<u8>,
    pub outputs_bytes: Vec<u8>,
    pub proof_bytes: Vec<u8>,
    pub outputs: StackOutputs,
    pub proof: ExecutionProof,
    pub trace_len: usize,
    pub cycles: u64,
}

pub enum SessErr {
    Trivial(String),
    Violation(String, String),
}

/// assemble, execute (for reference outputs), prove
pub fn make_session(spec: &ProgSpec, set: &str, exec: ExecutionOptions, popts: Option<ProvingOptions>) -> Result<Session, SessErr> {
    let program = spec.assemble(false).map_err(|e| SessErr::Trivial(format!("assemble-failed: {}", msg_key(&e, 40))))?;
    let mut host = spec.host(vec![], HostCfg::default());
    let t = match vm::run(&program, spec.stack(), &mut host, exec) {
        vm::Outcome::Ok(t) => t,
        o => return Err(SessErr::Trivial(format!("exec-{}", o.class()))),
    };
    let ref_outputs = t.stack_outputs().clone();
    use winter_prover::Trace;
    let trace_len = t.length();
    let cycles = t.trace_len_summary().main_trace_len() as u64;
    drop(t);
    let mut host2 = spec.host(vec![], HostCfg::default());
    let opts = popts.unwrap_or_else(|| proving_options(set, exec));
    let r = catch(|| prover::prove(&program, spec.stack(), &mut host2, opts));
    let (outputs, proof) = match r {
        Ok(Ok(x)) => x,
        Ok(Err(e)) => return Err(SessErr::Violation("C01/prove-error".into(), format!("execution succeeds but prove() returns an error: {e}"))),
        Err((l, m)) => return Err(SessErr::Violation(format!("C01/prove-panic/{}", l), format!("execution succeeds but prove() panics: {m} (trace length {trace_len}, cycles {cycles})"))),
    };
    if outputs != ref_outputs {
        return Err(SessErr::Violation("C01/prove-outputs-differ".into(), "outputs returned by prove() differ from those of execute()".into()));
    }
    let info = ProgramInfo::from(program.clone());
    Ok(Session {
        info_bytes: info.to_bytes(),
        inputs_bytes: spec.stack().to_bytes(),
        outputs_bytes: outputs.to_bytes(),
        proof_bytes: proof.to_bytes(),
        program,
        outputs,
        proof,
        trace_len,
        cycles,
    })
}

/// what the verifier side does with delivered bytes; Err(reason) = rejected somewhere
pub fn deliver(info: &[u8], inputs: &[u8], outputs: &[u8], proof: &[u8]) -> Result<Result<u32, String>, (String, String)> {
    catch(|| {
        let info = ProgramInfo::read_from(&mut SliceReader::new(info)).map_err(|e| format!("decode-info: {e}"))?;
        let inputs = StackInputs::read_from(&mut SliceReader::new(inputs)).map_err(|e| format!("decode-inputs: {e}"))?;
        let outputs = StackOutputs::read_from(&mut SliceReader::new(outputs)).map_err(|e| format!("decode-outputs: {e}"))?;
        let proof = ExecutionProof::from_bytes(proof).map_err(|e| format!("decode-proof: {e}"))?;
        verifier::verify(info, inputs, outputs, proof).map_err(|e| format!("verify: {e}"))
    })
}

impl Prop for C01 {
    fn id(&self) -> &'static str {
        "C01"
    }
    fn level(&self) -> &'static str {
        "exploration"
    }
    fn runs(&self, tier: Tier) -> u64 {
        match tier {
            Tier::Quick => 160,
            Tier::Thorough => 4000,
        }
    }
    fn run_timeout_s(&self) -> u64 {
        1200
    }
    fn wall_cap_s(&self, tier: Tier) -> u64 {
        match tier {
            Tier::Quick => 400,
            Tier::Thorough => 2400,
        }
    }
    fn rule(&self) -> &'static str {
        "one run = one generated program (in 1 run of 5 a program searched so that its cycles, range-checker rows or chiplet rows end at a power of two) + inputs executed, proved with one of the four standard option sets (Blake3-96/128, RPO-96/128) under randomised execution knobs, every verifier input serialised, sent through the fault-free channel, decoded and verified. Non-trivial = execution succeeded and a proof was produced; distinct = digest of (source, inputs, advice, option set, knobs)."
    }
    fn generate(&self, rng: &mut Rng, _tier: Tier, _index: u64) -> Value {
        let set = *rng.pick(&["b96", "b96", "b96", "b96", "b96", "b96", "b96", "b96", "b96", "b128", "b128", "b128", "b128", "b128", "r96", "r96", "r96", "r96", "r96", "r128"]);
        if rng.chance(1, 5) {
            // a component (cycles, range checker, chiplets) that ends right at a power of two
            let sc = crate::gen::boundary::scenario(rng);
            return json!({"prog": sc["prog"], "set": set, "expected_cycles": *rng.pick(&[0u64, 64, 256, 4096]), "tracing": rng.chance(1, 2), "boundary": sc["boundary"]});
        }
        let tiny = set == "r128" || rng.chance(1, 3);
        let cfg = small_cfg(rng, tiny);
        let p = generate(rng, cfg);
        json!({"prog": p.to_json(), "set": set, "expected_cycles": *rng.pick(&[0u64, 64, 256, 4096]), "tracing": rng.chance(1, 2)})
    }
    fn execute(&self, sc: &Value) -> RunOut {
        let mut out = RunOut::default();
        out.digest = digest_value(sc);
        let spec = ProgSpec::from_json(&sc["prog"]);
        let set = sc["set"].as_str().unwrap_or("b96");
        let exec = vm::options(None, sc["expected_cycles"].as_u64().unwrap_or(64) as u32, sc["tracing"].as_bool().unwrap_or(false));
        let s = match make_session(&spec, set, exec, None) {
            Ok(s) => s,
            Err(SessErr::Trivial(t)) => {
                out.count(&format!("outcome:{}", t));
                return out;
            }
            Err(SessErr::Violation(c, d)) => {
                out.violate(c, d);
                return out;
            }
        };
        out.nontrivial = true;
        out.cycles = s.cycles;
        out.count(&format!("reach:set|{}", set));
        out.count(&format!("reach:len|{}", s.trace_len));
        if s.outputs.has_overflow() {
            out.count("probe:deep-outputs");
        }
        if !s.program.kernel().is_empty() {
            out.count("probe:kernel");
        }
        // round trip of the proof bytes
        match catch(|| ExecutionProof::from_bytes(&s.proof_bytes)) {
            Ok(Ok(p)) => {
                if p != s.proof {
                    out.violate("C01/proof-roundtrip-differs", "proof decoded from its own bytes differs");
                }
            }
            Ok(Err(e)) => out.violate("C01/proof-roundtrip-error", format!("{e}")),
            Err((l, m)) => out.violate(format!("C01/proof-roundtrip-panic/{}", l), m),
        }
        let level = s.proof.security_level();
        match deliver(&s.info_bytes, &s.inputs_bytes, &s.outputs_bytes, &s.proof_bytes) {
            Ok(Ok(l)) => {
                if l < target_level(set) {
                    out.violate(format!("C01/security-level/{}", set), format!("verify reports {l} bits for option set {set}"));
                }
                if l != level {
                    out.violate("C01/security-level-mismatch", format!("verify reports {l}, proof.security_level() {level}"));
                }
            }
            Ok(Err(e)) => out.violate(format!("C01/rejected/{}/{}", set, msg_key(&e, 40)), format!("honest proof rejected: {e} (trace length {}, cycles {})", s.trace_len, s.cycles)),
            Err((l, m)) => out.violate(format!("C01/verify-panic/{}", l), m),
        }
        let mut h = Fnv::new();
        h.bytes(&s.outputs_bytes).u64(s.proof_bytes.len() as u64);
        out.obs = h.finish();
        out.sample = Some(json!({"source": spec.source, "kernel": spec.kernel, "set": set, "trace_len": s.trace_len, "proof_bytes": s.proof_bytes.len(), "security_level": level, "deep_outputs": s.outputs.has_overflow()}));
        out
    }
    fn components_real(&self) -> Vec<&'static str> {
        vec!["assembler", "processor", "prover (winterfell, with debug-assertion trace validation)", "serialisers of ProgramInfo/StackInputs/StackOutputs/ExecutionProof", "verifier"]
    }
    fn components_simulated(&self) -> Vec<&'static str> {
        vec!["channel (fault free)", "honest host", "knobs", "program generator"]
    }
    fn assumptions(&self) -> Vec<&'static str> {
        vec!["RPO-128 proofs are restricted to small traces (cost)", "single-threaded prover (the `concurrent` feature is not built)"]
    }
}

// ------------------------------------------------------------------------------------------------
// C02

fn rd_felts(bytes: &[u8]) -> Vec<u64> {
    bytes.chunks(8).filter(|c| c.len() == 8).map(|c| u64::from_le_bytes(c.try_into().unwrap())).collect()
}

fn digest_of(w: [u64; 4]) -> Digest {
    let wd: Word = [Felt::new(w[0]), Felt::new(w[1]), Felt::new(w[2]), Felt::new(w[3])];
    wd.into()
}

fn norm_stack(v: &[u64]) -> Vec<u64> {
    let mut x: Vec<u64> = v.iter().map(|a| a % P).collect();
    while x.len() < 16 {
        x.push(0);
    }
    while x.len() > 16 && *x.last().unwrap() == 0 {
        // zeros below 16 are significant for the overflow table of outputs, but not for inputs
        break;
    }
    x
}

impl Prop for C02 {
    fn id(&self) -> &'static str {
        "C02"
    }
    fn level(&self) -> &'static str {
        "fault_enumeration"
    }
    fn runs(&self, tier: Tier) -> u64 {
        match tier {
            Tier::Quick => 48,
            Tier::Thorough => 1600,
        }
    }
    fn run_timeout_s(&self) -> u64 {
        1200
    }
    fn wall_cap_s(&self, tier: Tier) -> u64 {
        match tier {
            Tier::Quick => 400,
            Tier::Thorough => 2400,
        }
    }
    fn shrink_budget(&self) -> u64 {
        10
    }
    fn rule(&self) -> &'static str {
        "one run = one proved session (plus a second independent session as the source of misdelivery faults) delivered many times, each delivery carrying one planned channel fault: every single-element alteration of every statement field (exhaustive per session), insert/remove/permute, field swaps with the other session, kernel alterations, bit flips of the proof bytes (every bit of the first 64 bytes, sampled elsewhere), truncations, tag relabels, the other session's proof, and a proof generated with weaker-than-accepted options. One evaluation = one delivery; non-trivial = the delivered statement or proof differs as values from what was sent and the verifier side ran; distinct = digest of (session, fault)."
    }
    fn generate(&self, rng: &mut Rng, tier: Tier, _index: u64) -> Value {
        let set = *rng.pick(&["b96", "b96", "b96", "b96", "b128", "b128", "r96", "r96"]);
        let tiny = rng.chance(1, 2);
        let cfg = small_cfg(rng, tiny);
        let mut cfg2 = small_cfg(rng, true);
        cfg2.n_kernel = cfg.n_kernel;
        let p = generate(rng, cfg);
        let same_program = rng.chance(1, 2);
        let p2 = if same_program {
            // same program, other inputs
            let mut q = p.clone();
            for v in q.stack_inputs.iter_mut() {
                if rng.chance(1, 2) {
                    *v = rng.felt();
                }
            }
            if q.stack_inputs.is_empty() {
                q.stack_inputs.push(rng.felt() | 1);
            }
            q
        } else {
            generate(rng, cfg2)
        };
        // sampled proof faults are described relative to the proof length (resolved at execution)
        let nflip = if tier == Tier::Thorough { 1500 } else { 350 };
        let mut flips = vec![];
        for _ in 0..nflip {
            // region: 0 = head (first 1 KiB), 1 = anywhere, 2 = tail (last 256 bytes)
            flips.push(json!([rng.below(3), rng.next() >> 11, rng.below(8)]));
        }
        let mut truncs = vec![];
        for _ in 0..(if tier == Tier::Thorough { 200 } else { 60 }) {
            truncs.push(json!(rng.next() >> 11));
        }
        let mut values = vec![];
        for _ in 0..64 {
            values.push(json!(rng.felt().to_string()));
        }
        json!({"prog": p.to_json(), "prog2": p2.to_json(), "set": set, "flips": flips, "truncs": truncs, "values": values, "weak": rng.below(6), "do_weak": rng.chance(1, 2)})
    }

    fn execute(&self, sc: &Value) -> RunOut {
        let mut out = RunOut::default();
        out.digest = digest_value(sc);
        let spec = ProgSpec::from_json(&sc["prog"]);
        let spec2 = ProgSpec::from_json(&sc["prog2"]);
        let set = sc["set"].as_str().unwrap_or("b96");
        let exec = ExecutionOptions::default();
        let s = match make_session(&spec, set, exec, None) {
            Ok(s) => s,
            Err(SessErr::Trivial(t)) => {
                out.count(&format!("outcome:{}", t));
                return out;
            }
            Err(SessErr::Violation(c, d)) => {
                // completeness failures belong to C01; here they only make the run trivial
                out.count(&format!("outcome:session-failed|{}", c));
                let _ = d;
                return out;
            }
        };
        let s2 = make_session(&spec2, set, exec, None).ok();
        out.cycles = s.cycles;
        let vals: Vec<u64> = sc["values"].as_array().map(|a| a.iter().map(|x| x.as_str().and_then(|s| s.parse().ok()).unwrap_or(7)).collect()).unwrap_or_default();
        let mut vi = 0usize;
        let mut nextval = |not: u64| -> u64 {
            loop {
                let v = vals[vi % vals.len().max(1)];
                vi += 1;
                if v % P != not % P {
                    return v;
                }
                if vi > 1000 {
                    return (not + 1) % P;
                }
            }
        };
        // sanity: the clean delivery is accepted
        match deliver(&s.info_bytes, &s.inputs_bytes, &s.outputs_bytes, &s.proof_bytes) {
            Ok(Ok(_)) => {}
            other => {
                out.count("outcome:clean-delivery-rejected");
                let _ = other;
                return out;
            }
        }
        let base_digest = out.digest;
        let mut subs: Vec<u64> = vec![];
        let mut obs = Fnv::new();
        let mut evals = 0u64;
        // one faulty delivery
        let mut try_delivery = |out: &mut RunOut, fault: &str, key: String, info: &[u8], inputs: &[u8], outputs: &[u8], proof: &[u8], changed: bool| {
            evals += 1;
            let r = deliver(info, inputs, outputs, proof);
            let mut h = Fnv::new();
            h.u64(base_digest).str(fault).str(&key);
            match r {
                Err((l, m)) => {
                    out.violate(format!("C02/panic/{}/{}", l, fault), format!("fault {fault} [{key}]: verifier side panicked: {m}"));
                    obs.str("panic");
                    subs.push(h.finish());
                    out.count(&format!("fault:{}", fault));
                }
                Ok(Ok(_)) => {
                    obs.str("ok");
                    if changed {
                        // position class of an accepted proof-byte alteration (keeps the class specific)
                        let pos = if key.contains("(proof length") {
                            let d: usize = key.split(", ").nth(1).and_then(|t| t.split(' ').next()).and_then(|t| t.parse().ok()).unwrap_or(0);
                            if d <= 8 { "/pow-nonce".to_string() } else if d == 9 { "/byte-before-nonce".to_string() } else { "/body".to_string() }
                        } else {
                            String::new()
                        };
                        out.violate(format!("C02/accepted/{}{}", fault, pos), format!("fault {fault} [{key}]: verification ACCEPTED an altered statement/proof"));
                        subs.push(h.finish());
                        out.count(&format!("fault:{}", fault));
                    } else {
                        out.count(&format!("probe:benign|{}", fault));
                    }
                }
                Ok(Err(e)) => {
                    obs.str("rej");
                    if changed {
                        subs.push(h.finish());
                        out.count(&format!("fault:{}", fault));
                        let stage = e.split(':').next().unwrap_or("").to_string();
                        out.count(&format!("reach:rejected|{}|{}", fault, stage));
                    } else {
                        // an unchanged delivery must be accepted
                        out.violate(format!("C02/rejected-unchanged/{}", fault), format!("fault {fault} [{key}] left all values unchanged but verification failed: {e}"));
                    }
                }
            }
        };

        // ---------------- statement: program info (hash + kernel) -----------------------------
        let hash_w: Word = s.program.hash().into();
        let kernel_hashes: Vec<Digest> = s.program.kernel().proc_hashes().to_vec();
        let mk_info = |hash: [u64; 4], procs: &[Digest]| -> Option<Vec<u8>> {
            let k = Kernel::new(procs).ok()?;
            Some(ProgramInfo::new(digest_of(hash), k).to_bytes())
        };
        let h0 = [hash_w[0].as_int(), hash_w[1].as_int(), hash_w[2].as_int(), hash_w[3].as_int()];
        for i in 0..4 {
            for delta in [1u64, 0] {
                let mut h = h0;
                h[i] = if delta == 1 { (h[i] + 1) % P } else { nextval(h[i]) };
                if let Some(b) = mk_info(h, &kernel_hashes) {
                    try_delivery(&mut out, "stmt-hash-element", format!("{i}/{delta}"), &b, &s.inputs_bytes, &s.outputs_bytes, &s.proof_bytes, true);
                }
            }
        }
        // kernel: alter / add / remove
        {
            let mut procs = kernel_hashes.clone();
            procs.push(digest_of([nextval(0), 2, 3, 4]));
            if let Some(b) = mk_info(h0, &procs) {
                try_delivery(&mut out, "stmt-kernel-add", "1".into(), &b, &s.inputs_bytes, &s.outputs_bytes, &s.proof_bytes, true);
            }
            for j in 0..kernel_hashes.len() {
                let mut procs = kernel_hashes.clone();
                procs.remove(j);
                if let Some(b) = mk_info(h0, &procs) {
                    try_delivery(&mut out, "stmt-kernel-remove", format!("{j}"), &b, &s.inputs_bytes, &s.outputs_bytes, &s.proof_bytes, true);
                }
                for e in 0..4 {
                    let mut procs = kernel_hashes.clone();
                    let mut wd: Word = procs[j].into();
                    wd[e] += Felt::new(1);
                    procs[j] = wd.into();
                    if let Some(b) = mk_info(h0, &procs) {
                        try_delivery(&mut out, "stmt-kernel-alter", format!("{j}/{e}"), &b, &s.inputs_bytes, &s.outputs_bytes, &s.proof_bytes, true);
                    }
                }
            }
            if kernel_hashes.len() >= 2 {
                // permuted kernel is the same kernel (Kernel::new sorts): must still be accepted
                let mut procs = kernel_hashes.clone();
                procs.reverse();
                if let Some(b) = mk_info(h0, &procs) {
                    try_delivery(&mut out, "stmt-kernel-permute", "rev".into(), &b, &s.inputs_bytes, &s.outputs_bytes, &s.proof_bytes, false);
                }
            }
        }
        // ---------------- statement: stack inputs ----------------------------------------------
        let ins: Vec<u64> = spec.stack_inputs.clone(); // [0] = top
        let mk_inputs = |v: &[u64]| -> Vec<u8> {
            let mut f: Vec<Felt> = v.iter().map(|x| Felt::new(*x)).collect();
            f.reverse();
            StackInputs::new(f).to_bytes()
        };
        for i in 0..ins.len() {
            let mut v = ins.clone();
            v[i] = if i % 2 == 0 { (v[i] + 1) % P } else { nextval(v[i]) };
            try_delivery(&mut out, "stmt-input-element", format!("{i}"), &s.info_bytes, &mk_inputs(&v), &s.outputs_bytes, &s.proof_bytes, true);
        }
        {
            // append a non-zero element at the bottom / remove the bottom element (if non-zero)
            let mut v = ins.clone();
            v.push(nextval(0));
            try_delivery(&mut out, "stmt-input-insert", "bottom".into(), &s.info_bytes, &mk_inputs(&v), &s.outputs_bytes, &s.proof_bytes, true);
            if let Some(last) = ins.last() {
                if *last % P != 0 {
                    let mut v = ins.clone();
                    v.pop();
                    try_delivery(&mut out, "stmt-input-remove", "bottom".into(), &s.info_bytes, &mk_inputs(&v), &s.outputs_bytes, &s.proof_bytes, true);
                }
            }
            if ins.len() >= 2 && norm_stack(&ins) != norm_stack(&{
                let mut v = ins.clone();
                v.swap(0, 1);
                v
            }) {
                let mut v = ins.clone();
                v.swap(0, 1);
                try_delivery(&mut out, "stmt-input-permute", "0<->1".into(), &s.info_bytes, &mk_inputs(&v), &s.outputs_bytes, &s.proof_bytes, true);
            }
            if ins.is_empty() {
                try_delivery(&mut out, "stmt-input-insert", "top".into(), &s.info_bytes, &mk_inputs(&[nextval(0)]), &s.outputs_bytes, &s.proof_bytes, true);
            }
        }
        // ---------------- statement: stack outputs ----------------------------------------------
        let ostack: Vec<u64> = s.outputs.stack().to_vec();
        let oaddrs: Vec<u64> = s.outputs.overflow_addrs().to_vec();
        if oaddrs.len() > 1 {
            out.count("probe:deep-outputs");
        }
        let mk_outputs = |st: &[u64], ad: &[u64]| -> Option<Vec<u8>> { StackOutputs::new(st.to_vec(), ad.to_vec()).ok().map(|o| o.to_bytes()) };
        for i in 0..ostack.len() {
            let mut v = ostack.clone();
            v[i] = if i % 2 == 0 { (v[i] + 1) % P } else { nextval(v[i]) };
            match mk_outputs(&v, &oaddrs) {
                Some(b) => try_delivery(&mut out, if i < 16 { "stmt-output-top" } else { "stmt-output-overflow" }, format!("{i}"), &s.info_bytes, &s.inputs_bytes, &b, &s.proof_bytes, true),
                None => out.count("probe:outputs-constructor-refused"),
            }
        }
        for j in 0..oaddrs.len() {
            let mut a = oaddrs.clone();
            a[j] = if j % 2 == 0 { (a[j] + 1) % P } else { nextval(a[j]) };
            match mk_outputs(&ostack, &a) {
                Some(b) => try_delivery(&mut out, "stmt-output-overflow-addr", format!("{j}"), &s.info_bytes, &s.inputs_bytes, &b, &s.proof_bytes, true),
                None => out.count("probe:outputs-constructor-refused"),
            }
        }
        {
            // one more / one fewer overflow element
            let mut v = ostack.clone();
            let mut a = oaddrs.clone();
            v.push(nextval(0));
            if a.is_empty() {
                a.push(0);
            }
            a.push(nextval(0) % (1 << 30));
            if let Some(b) = mk_outputs(&v, &a) {
                try_delivery(&mut out, "stmt-output-insert", "bottom".into(), &s.info_bytes, &s.inputs_bytes, &b, &s.proof_bytes, true);
            }
            if ostack.len() > 16 {
                let mut v = ostack.clone();
                let mut a = oaddrs.clone();
                v.pop();
                a.pop();
                if v.len() == 16 {
                    a.clear();
                }
                if let Some(b) = mk_outputs(&v, &a) {
                    try_delivery(&mut out, "stmt-output-remove", "bottom".into(), &s.info_bytes, &s.inputs_bytes, &b, &s.proof_bytes, true);
                }
            }
            if ostack.len() >= 2 && ostack[0] % P != ostack[1] % P {
                let mut v = ostack.clone();
                v.swap(0, 1);
                if let Some(b) = mk_outputs(&v, &oaddrs) {
                    try_delivery(&mut out, "stmt-output-permute", "0<->1".into(), &s.info_bytes, &s.inputs_bytes, &b, &s.proof_bytes, true);
                }
            }
        }
        // raw byte-level alterations of the serialised outputs (length fields, padding)
        for k in 0..s.outputs_bytes.len().min(24) {
            for bit in [0u8, 7] {
                let mut b = s.outputs_bytes.clone();
                b[k] ^= 1 << bit;
                let same = matches!(catch(|| StackOutputs::read_from(&mut SliceReader::new(&b))), Ok(Ok(o)) if o == s.outputs);
                try_delivery(&mut out, "stmt-output-bytes", format!("{k}/{bit}"), &s.info_bytes, &s.inputs_bytes, &b, &s.proof_bytes, !same);
            }
        }
        for k in 0..s.inputs_bytes.len().min(16) {
            let mut b = s.inputs_bytes.clone();
            b[k] ^= 1;
            let same = rd_felts(&b) == rd_felts(&s.inputs_bytes) && b.len() == s.inputs_bytes.len() && b == s.inputs_bytes;
            try_delivery(&mut out, "stmt-input-bytes", format!("{k}"), &s.info_bytes, &b, &s.outputs_bytes, &s.proof_bytes, !same);
        }
        // crafted encodings of the outputs that the constructor would refuse (short stack,
        // inconsistent overflow-address count, non-canonical element)
        {
            let enc = |st: &[u64], ad: &[u64]| -> Vec<u8> {
                let mut b = vec![];
                b.extend_from_slice(&(st.len() as u32).to_le_bytes());
                for x in st {
                    b.extend_from_slice(&x.to_le_bytes());
                }
                b.extend_from_slice(&(ad.len() as u32).to_le_bytes());
                for x in ad {
                    b.extend_from_slice(&x.to_le_bytes());
                }
                b
            };
            let top: Vec<u64> = ostack.iter().take(16).cloned().collect();
            let differs_after = |k: usize| top.iter().skip(k).any(|x| *x % P != 0) || ostack.len() > 16;
            let mut crafted: Vec<(String, Vec<u8>, bool)> = vec![];
            for k in [0usize, 1, 5, 15] {
                // a stack cut to k elements denotes the same value only if everything below is zero
                crafted.push((format!("short-{k}"), enc(&top[..k.min(top.len())], &[]), differs_after(k)));
            }
            let mut st17 = top.clone();
            st17.push(nextval(0));
            crafted.push(("17-elements-no-addresses".into(), enc(&st17, &[]), true));
            crafted.push(("16-elements-3-addresses".into(), enc(&top, &[0, 5, 9]), true));
            let mut nc = top.clone();
            // the same field element, written non-canonically (if it fits into 64 bits)
            let alias = (nc[3] % P).checked_add(P);
            nc[3] = alias.unwrap_or(nc[3]);
            if alias.is_some() {
                crafted.push(("non-canonical-alias".into(), enc(&nc, &oaddrs), ostack.len() > 16 && false));
            }
            let mut big = top.clone();
            big[2] = u64::MAX;
            // (if the element happens to be 2^32 - 2 = u64::MAX mod p this is the non-canonical alias of
            // the same statement, which a decoder may refuse: covered by the case above, not judged here)
            if (u64::MAX % P) != top[2] % P {
                crafted.push(("element-u64-max".into(), enc(&big, &oaddrs), true));
            }
            for (name, bytes, changed) in crafted {
                if name == "non-canonical-alias" {
                    // the same statement written non-canonically: a decoder may refuse the encoding or
                    // accept it as the alias it is; only a panic would be wrong
                    match deliver(&s.info_bytes, &s.inputs_bytes, &bytes, &s.proof_bytes) {
                        Err((l, m)) => out.violate(format!("C02/panic/{}/stmt-output-crafted", l), format!("non-canonical alias: {m}")),
                        Ok(Ok(_)) => out.count("probe:alias|accepted"),
                        Ok(Err(_)) => out.count("probe:alias|refused"),
                    }
                    continue;
                }
                try_delivery(&mut out, "stmt-output-crafted", name, &s.info_bytes, &s.inputs_bytes, &bytes, &s.proof_bytes, changed);
            }
        }
        // ---------------- misdelivery: fields / proof of the other session ----------------------
        if let Some(o) = &s2 {
            if o.info_bytes != s.info_bytes {
                try_delivery(&mut out, "swap-info", "s2".into(), &o.info_bytes, &s.inputs_bytes, &s.outputs_bytes, &s.proof_bytes, true);
            }
            if norm_stack(&spec2.stack_inputs) != norm_stack(&spec.stack_inputs) {
                try_delivery(&mut out, "swap-inputs", "s2".into(), &s.info_bytes, &o.inputs_bytes, &s.outputs_bytes, &s.proof_bytes, true);
            }
            if o.outputs != s.outputs {
                try_delivery(&mut out, "swap-outputs", "s2".into(), &s.info_bytes, &s.inputs_bytes, &o.outputs_bytes, &s.proof_bytes, true);
            }
            if o.proof_bytes != s.proof_bytes && (o.info_bytes != s.info_bytes || o.inputs_bytes != s.inputs_bytes || o.outputs_bytes != s.outputs_bytes) {
                try_delivery(&mut out, "swap-proof", "s2".into(), &s.info_bytes, &s.inputs_bytes, &s.outputs_bytes, &o.proof_bytes, true);
            }
        }
        // ---------------- proof bytes ------------------------------------------------------------
        let pl = s.proof_bytes.len();
        let changed_proof = |b: &[u8]| -> bool { !matches!(catch(|| ExecutionProof::from_bytes(b)), Ok(Ok(p)) if p == s.proof) };
        for tag in [0u8, 1, 2, 3, 0x80, 0xff] {
            if tag != s.proof_bytes[0] {
                let mut b = s.proof_bytes.clone();
                b[0] = tag;
                try_delivery(&mut out, "proof-tag-relabel", format!("{tag}"), &s.info_bytes, &s.inputs_bytes, &s.outputs_bytes, &b, true);
            }
        }
        for off in 1..pl.min(64) {
            for bit in 0..8 {
                let mut b = s.proof_bytes.clone();
                b[off] ^= 1 << bit;
                let ch = changed_proof(&b);
                try_delivery(&mut out, "proof-bitflip-head64", format!("{off}/{bit}"), &s.info_bytes, &s.inputs_bytes, &s.outputs_bytes, &b, ch);
            }
        }
        for f in sc["flips"].as_array().cloned().unwrap_or_default() {
            let region = f[0].as_u64().unwrap_or(1);
            let r = f[1].as_u64().unwrap_or(0) as usize;
            let bit = f[2].as_u64().unwrap_or(0) as u8;
            let (off, name) = match region {
                0 => (64 + r % (pl.min(1024).max(65) - 64), "proof-bitflip-head1k"),
                2 => (pl - 1 - r % pl.min(256), "proof-bitflip-tail"),
                _ => (1 + r % (pl - 1), "proof-bitflip-anywhere"),
            };
            let off = off.min(pl - 1);
            let mut b = s.proof_bytes.clone();
            b[off] ^= 1 << bit;
            let ch = changed_proof(&b);
            try_delivery(&mut out, name, format!("{off}/{bit} (proof length {pl}, {} bytes before the end)", pl - off), &s.info_bytes, &s.inputs_bytes, &s.outputs_bytes, &b, ch);
        }
        let mut cuts: Vec<usize> = vec![0, 1, 2, 3, pl - 1, pl - 2, pl / 2];
        for t in sc["truncs"].as_array().cloned().unwrap_or_default() {
            cuts.push(t.as_u64().unwrap_or(0) as usize % pl);
        }
        for c in cuts {
            let b = s.proof_bytes[..c.min(pl - 1)].to_vec();
            try_delivery(&mut out, "proof-truncate", format!("{c}"), &s.info_bytes, &s.inputs_bytes, &s.outputs_bytes, &b, true);
        }
        {
            let mut b = s.proof_bytes.clone();
            b.extend_from_slice(&[0xAB; 9]);
            let ch = changed_proof(&b);
            try_delivery(&mut out, "proof-garbage-tail", "9".into(), &s.info_bytes, &s.inputs_bytes, &s.outputs_bytes, &b, ch);
        }
        // ---------------- weaker-than-accepted options (real prover) -----------------------------
        if sc["do_weak"].as_bool().unwrap_or(false) {
            let hf = match set {
                "b128" => HashFunction::Blake3_256,
                "r96" => HashFunction::Rpo256,
                _ => HashFunction::Blake3_192,
            };
            let (fold, rem) = if set.starts_with('r') { (4, 7) } else { (8, 255) };
            let weak = match sc["weak"].as_u64().unwrap_or(0) {
                // a standard parameter set presented under a hash function it is not accepted for
                4 => match set {
                    "b96" => ProvingOptions::new(27, 16, 21, FieldExtension::Cubic, 8, 255, HashFunction::Blake3_192),
                    "b128" => ProvingOptions::new(27, 8, 16, FieldExtension::Quadratic, 8, 255, HashFunction::Blake3_256),
                    _ => ProvingOptions::new(27, 8, 16, FieldExtension::Quadratic, 8, 255, HashFunction::Rpo256),
                },
                5 => match set {
                    "b96" => ProvingOptions::new(27, 8, 16, FieldExtension::Quadratic, 4, 7, HashFunction::Blake3_192),
                    "b128" => ProvingOptions::new(27, 16, 21, FieldExtension::Cubic, 4, 7, HashFunction::Blake3_256),
                    _ => ProvingOptions::new(27, 16, 21, FieldExtension::Cubic, 8, 255, HashFunction::Rpo256),
                },
                0 => ProvingOptions::new(10, 8, 16, FieldExtension::Quadratic, fold, rem, hf),
                1 => ProvingOptions::new(27, 8, 0, FieldExtension::Quadratic, fold, rem, hf),
                2 => ProvingOptions::new(27, 8, 16, FieldExtension::None, fold, rem, hf),
                _ => ProvingOptions::new(26, 8, 16, FieldExtension::Quadratic, fold, rem, hf),
            };
            if let Ok(ws) = make_session(&spec, set, exec, Some(weak)) {
                try_delivery(&mut out, "proof-weak-options", format!("{}", sc["weak"]), &ws.info_bytes, &ws.inputs_bytes, &ws.outputs_bytes, &ws.proof_bytes, true);
            } else {
                out.count("probe:weak-proof-not-produced");
            }
        }
        out.evals = evals;
        out.nontrivial = !subs.is_empty();
        out.sub_digests = subs;
        out.obs = obs.finish();
        out.sample = Some(json!({"source": spec.source, "set": set, "trace_len": s.trace_len, "proof_bytes": pl, "deliveries": evals, "kernel_procs": kernel_hashes.len(), "inputs": ins.len(), "outputs": ostack.len()}));
        out
    }
    fn components_real(&self) -> Vec<&'static str> {
        vec!["assembler", "processor", "prover", "deserialisers (ProgramInfo, StackInputs, StackOutputs, ExecutionProof)", "verifier (verifier::verify, winter-verifier)"]
    }
    fn components_simulated(&self) -> Vec<&'static str> {
        vec!["channel / disk between prover and verifier (fault injection)", "second session as misdelivery source", "program generator"]
    }
    fn assumptions(&self) -> Vec<&'static str> {
        vec!["an alteration counts only if the delivered statement differs as field elements / the decoded proof differs as a value", "zero padding at the bottom of the stack inputs is not counted as an alteration", "collision resistance of the hash functions; soundness error of the STARK itself is negligible at 96 bits"]
    }
}
