//! C13 — the decoded operation stream is exactly the program (history check against an independent
//! MAST walker driven by the decisions recorded in the trace itself).

use crate::framework::*;
use crate::gen::pop;
use crate::gen::prog::GenCfg;
use crate::model::mast_walker;
use crate::rng::{Fnv, Rng};
use crate::world::host::HostCfg;
use crate::world::vm::{self, Outcome, ProgSpec};
use serde_json::{json, Value};
use winter_prover::Trace;

pub struct C13;

/// a span whose push / non-push pattern is given by the bits of `pattern` (length `len`)
fn pattern_source(pattern: u128, len: usize, style: u64) -> String {
    let mut s = String::from("begin\n   ");
    let mut depth_extra = 0i64;
    for i in 0..len {
        if (pattern >> (i % 128)) & 1 == 1 {
            s.push_str(&format!(" push.{}", 2 + (i as u64 * 7 + style) % 1000));
            depth_extra += 1;
        } else {
            // operations without an immediate that keep the stack depth
            s.push_str(match (i as u64 + style) % 4 {
                0 => " neg",
                1 => " swap",
                2 => " movup.3",
                _ => " incr_placeholder",
            });
        }
        if depth_extra > 40 {
            s.push_str(" dropw dropw dropw dropw");
            depth_extra -= 16;
        }
        if i % 12 == 11 {
            s.push_str("\n   ");
        }
    }
    s.push_str("\nend\n");
    s.replace("incr_placeholder", "add.1")
}

impl Prop for C13 {
    fn id(&self) -> &'static str {
        "C13"
    }
    fn level(&self) -> &'static str {
        "exploration"
    }
    fn runs(&self, tier: Tier) -> u64 {
        match tier {
            Tier::Quick => 4000,
            Tier::Thorough => 300_000,
        }
    }
    fn rule(&self) -> &'static str {
        "one run = one program (standard-library procedures on random operands in 1 of 15 runs; G_all swarm: all MAST shapes, loops with 0..n iterations driven by the host, call/syscall/dyn; or a single span whose push/non-push pattern and length 1..160 are enumerated by the run index) executed honestly; the decoder columns of the stored trace are compared row by row with the operation stream produced by an independent MAST walker that takes every split/loop/dyn decision from the trace itself and regroups span operations with its own implementation of the batching rules (NOOP only after a group-final immediate operation and one per padding group); in_span, group counter at span end, final program hash and HALT padding are checked too. Non-trivial = execution succeeded and the walk covered every executed row; distinct = digest of (source, inputs, advice)."
    }
    fn generate(&self, rng: &mut Rng, _tier: Tier, index: u64) -> Value {
        if index % 3 == 0 {
            // span patterns: short ones exhaustively by index, longer ones at random
            let k = index / 3;
            let (len, pattern) = if k < 8190 {
                // all patterns of length 1..=12 (2 + 4 + ... + 4096 = 8190)
                let mut len = 1usize;
                let mut base = 0u64;
                while k >= base + (1u64 << len) {
                    base += 1u64 << len;
                    len += 1;
                }
                (len, (k - base) as u128)
            } else {
                let len = rng.range(13, 160) as usize;
                let dens = rng.below(5);
                let mut p: u128 = 0;
                for i in 0..128 {
                    let bit = match dens {
                        0 => rng.chance(1, 10),
                        1 => rng.chance(1, 2),
                        2 => rng.chance(9, 10),
                        3 => i % 9 == 8,
                        _ => i % 9 == 7 || i % 9 == 8,
                    };
                    if bit {
                        p |= 1 << i;
                    }
                }
                (len, p)
            };
            let src = pattern_source(pattern, len, rng.below(4));
            return json!({"prog": {"source": src, "stack_inputs": [], "advice_stack": []}, "knobs": pop::knobs(rng), "pattern": format!("{:b}", pattern), "len": len});
        }
        if rng.chance(1, 10) {
            return pop::stdlib_scenario(rng);
        }
        let mut cfg = GenCfg::swarm(rng);
        cfg.w_ctrl += 2;
        cfg.w_stack += 2;
        cfg.w_crypto = cfg.w_crypto.min(3);
        pop::scenario(rng, cfg)
    }
    fn execute(&self, sc: &Value) -> RunOut {
        let mut out = RunOut::default();
        out.digest = digest_value(sc);
        let spec = ProgSpec::from_json(&sc["prog"]);
        let program = match spec.assemble(sc["knobs"]["debug_asm"].as_bool().unwrap_or(false)) {
            Ok(p) => p,
            Err(e) => {
                out.count("outcome:assemble-failed");
                out.sample = Some(json!({"assemble_error": e, "source": spec.source}));
                return out;
            }
        };
        let mut host = spec.host(vec![], HostCfg::default());
        let t = match vm::run(&program, spec.stack(), &mut host, vm::options(None, sc["knobs"]["expected_cycles"].as_u64().unwrap_or(64) as u32, false)) {
            Outcome::Ok(t) => t,
            o => {
                out.count(&format!("outcome:exec-{}", o.class()));
                return out;
            }
        };
        let n = t.trace_len_summary().main_trace_len();
        out.cycles = n as u64;
        let mut obs = Fnv::new();
        match catch(|| mast_walker::check(&program, t.main_segment(), n, t.length())) {
            Ok(Ok(st)) => {
                out.nontrivial = true;
                obs.u64(st.rows as u64).u64(st.noops_after_imm as u64).u64(st.noops_padding as u64);
                if st.respans > 0 {
                    out.count("probe:multi-batch-span");
                }
                if st.noops_after_imm > 0 {
                    out.count("probe:noop-after-group-final-immediate");
                }
                if st.noops_padding > 0 {
                    out.count("probe:noop-padding-group");
                }
                if st.loop_iterations > 1 {
                    out.count("probe:loop-iterated");
                }
                out.count(&format!("reach:nesting|{}", st.max_nesting.min(12)));
                out.count(&format!("reach:spans|{}", (st.spans as f64).log2().ceil() as u32));
            }
            Ok(Err(m)) => out.violate(format!("C13/{}", m.class), m.detail),
            Err((l, m)) => out.violate(format!("C13/walker-panic/{}", l), m),
        }
        out.obs = obs.finish();
        out.sample = Some(json!({"source": spec.source, "kernel": spec.kernel, "cycles": n, "pattern": sc["pattern"], "len": sc["len"]}));
        out
    }
    fn shrink_candidates(&self, sc: &Value) -> Vec<Value> {
        crate::shrinksrc::prog_candidates(sc, "/prog")
    }
    fn components_real(&self) -> Vec<&'static str> {
        vec!["assembler (span builder, op batching)", "processor block executors and decoder trace", "code block table"]
    }
    fn components_simulated(&self) -> Vec<&'static str> {
        vec!["independent MAST walker with its own grouping implementation", "honest host supplying loop/branch decisions", "span-pattern enumerator"]
    }
    fn assumptions(&self) -> Vec<&'static str> {
        vec!["the flat operation list of a span (OpBatch::ops concatenated) is taken from the compiled program; grouping, NOOP insertion, control-block order and decisions are recomputed"]
    }
}
