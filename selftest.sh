#!/bin/bash
# Determinism self-test (not registered in MANIFEST): every property's runs are executed in several
# processes with different worker counts and twice with the same seed; the per-run observation
# digests must be identical. Usage: ./selftest.sh [runs-per-property] [seed]
N=${1:-300}; SEED=${2:-4711}
mkdir -p sim/scratch
fail=0
for p in C01 C02 C03 C04 C06 C07 C09 C10 C11 C12 C13 C14 C15 C18 C19; do
  n=$N; case $p in C01) n=$((N/10+4));; C02) n=$((N/30+3));; C19) n=$((N/4));; esac
  for w in 1 5 16; do
    VSIM_DUMP_OBS=sim/scratch/obs_${p}_$w.txt ./check $p --runs $n --seed $SEED --workers $w --no-evidence > /dev/null 2>&1
  done
  if cmp -s sim/scratch/obs_${p}_1.txt sim/scratch/obs_${p}_5.txt && cmp -s sim/scratch/obs_${p}_1.txt sim/scratch/obs_${p}_16.txt; then
    echo "$p deterministic over $(wc -l < sim/scratch/obs_${p}_1.txt) runs x 3 worker counts"
  else
    echo "$p NONDETERMINISTIC"; fail=1
  fi
done
exit $fail
