//! C06 — control flow and procedure inlining follow the documented semantics.
//! Every condition is popped from the advice stack, so the simulated host *schedules the path*
//! (seam S1): one seed = one decision sequence = one exactly repeatable path. Faults = non-binary
//! answers at chosen decision points. Oracle = structural reference model predicting the exact
//! sequence of observation events (id and accumulator value) and the final stack; twin programs
//! (repeat unrolled, exec inlined) must give the same history.

use crate::framework::*;
use crate::rng::{Fnv, Rng, P};
use crate::world::host::{HostCfg, EV_EVENT};
use crate::world::vm::{self, Outcome, ProgSpec};
use serde_json::{json, Value};

pub struct C06;

#[derive(Clone, Debug)]
enum F {
    Blk(u32),
    If(Vec<F>, Vec<F>),
    While(Vec<F>),
    Repeat(u32, Vec<F>),
    Exec(usize),
}

#[derive(Clone, Debug)]
struct ProcF {
    locals: u32,
    body: Vec<F>,
    imported: bool,
}

fn f_to_json(f: &F) -> Value {
    match f {
        F::Blk(id) => json!({"b": id}),
        F::If(t, e) => json!({"if": t.iter().map(f_to_json).collect::<Vec<_>>(), "else": e.iter().map(f_to_json).collect::<Vec<_>>()}),
        F::While(b) => json!({"while": b.iter().map(f_to_json).collect::<Vec<_>>()}),
        F::Repeat(n, b) => json!({"repeat": n, "body": b.iter().map(f_to_json).collect::<Vec<_>>()}),
        F::Exec(i) => json!({"exec": i}),
    }
}
fn fs_from_json(v: &Value) -> Vec<F> {
    v.as_array().cloned().unwrap_or_default().iter().map(f_from_json).collect()
}
fn f_from_json(v: &Value) -> F {
    if let Some(id) = v.get("b") {
        F::Blk(id.as_u64().unwrap_or(0) as u32)
    } else if v.get("if").is_some() {
        F::If(fs_from_json(&v["if"]), fs_from_json(&v["else"]))
    } else if v.get("while").is_some() {
        F::While(fs_from_json(&v["while"]))
    } else if v.get("repeat").is_some() {
        F::Repeat(v["repeat"].as_u64().unwrap_or(1) as u32, fs_from_json(&v["body"]))
    } else {
        F::Exec(v["exec"].as_u64().unwrap_or(0) as usize)
    }
}

struct GenF<'a> {
    rng: &'a mut Rng,
    next_id: u32,
    nprocs: usize,
}
impl<'a> GenF<'a> {
    fn body(&mut self, nest: u32, max_nest: u32, avail_procs: usize) -> Vec<F> {
        let n = self.rng.range(1, 4);
        let mut v = vec![];
        for _ in 0..n {
            let c = if nest >= max_nest { 0 } else { self.rng.below(10) };
            let item = match c {
                0..=2 => {
                    self.next_id += 1;
                    F::Blk(self.next_id)
                }
                3 | 4 => {
                    let t = self.body(nest + 1, max_nest, avail_procs);
                    let e = if self.rng.chance(1, 4) { vec![] } else { self.body(nest + 1, max_nest, avail_procs) };
                    F::If(t, e)
                }
                5 | 6 => F::While(self.body(nest + 1, max_nest, avail_procs)),
                7 => {
                    // mostly small counts; sometimes counts around powers of two (the assembler combines
                    // the copies into a balanced tree of JOIN blocks) with a leaf body
                    if self.rng.chance(1, 6) {
                        let n = *self.rng.pick(&[6u32, 7, 8, 9, 15, 16, 17, 31, 32, 33, 63, 64, 65, 100, 255, 256, 257]);
                        let b = self.body(max_nest, max_nest, avail_procs);
                        F::Repeat(n, b)
                    } else {
                        F::Repeat(self.rng.range(0, 4) as u32 + if self.rng.chance(1, 10) { 5 } else { 0 }, self.body(nest + 1, max_nest, avail_procs))
                    }
                }
                _ => {
                    if avail_procs > 0 {
                        F::Exec(self.rng.usize(avail_procs))
                    } else {
                        self.next_id += 1;
                        F::Blk(self.next_id)
                    }
                }
            };
            v.push(item);
        }
        let _ = self.nprocs;
        v
    }
}

/// reference model: walks the structure under a decision stream; returns events (id, acc) and the
/// final accumulator; `Err(k)` = stopped at decision k because its value is not binary
struct Walk<'a> {
    decisions: &'a [u64],
    pos: usize,
    acc: u64,
    events: Vec<(u32, u64)>,
    /// generation mode: draw decisions instead of reading them
    gen: Option<&'a mut Rng>,
    drawn: Vec<u64>,
    budget: u64,
}
const MUL: u64 = 31;
fn step_acc(acc: u64, id: u32) -> u64 {
    (((acc as u128 * MUL as u128) + id as u128) % P as u128) as u64
}
impl<'a> Walk<'a> {
    fn decide(&mut self, is_loop_continue: bool) -> Result<bool, usize> {
        let k = self.pos;
        self.pos += 1;
        if let Some(rng) = self.gen.as_mut() {
            let one = if self.budget == 0 {
                false
            } else if is_loop_continue {
                rng.chance(2, 5)
            } else {
                rng.chance(1, 2)
            };
            self.drawn.push(one as u64);
            return Ok(one);
        }
        match self.decisions.get(k) {
            Some(0) => Ok(false),
            Some(1) => Ok(true),
            Some(_) => Err(k),
            None => Ok(false),
        }
    }
    fn run(&mut self, fs: &[F], procs: &[ProcF]) -> Result<(), usize> {
        for f in fs {
            self.budget = self.budget.saturating_sub(1);
            match f {
                F::Blk(id) => {
                    // the decorator sits between `mul` and `add`
                    self.events.push((*id, ((self.acc as u128 * MUL as u128) % P as u128) as u64));
                    self.acc = step_acc(self.acc, *id);
                }
                F::If(t, e) => {
                    if self.decide(false)? {
                        self.run(t, procs)?
                    } else {
                        self.run(e, procs)?
                    }
                }
                F::While(b) => {
                    let mut go = self.decide(false)?;
                    while go {
                        self.run(b, procs)?;
                        go = self.decide(true)?;
                    }
                }
                F::Repeat(n, b) => {
                    for _ in 0..*n {
                        self.run(b, procs)?;
                    }
                }
                F::Exec(i) => {
                    let p = &procs[*i];
                    self.run(&p.body, procs)?;
                }
            }
        }
        Ok(())
    }
}

fn render(fs: &[F], procs: &[ProcF], ind: usize, unroll: Option<usize>, inline: Option<usize>, counters: &mut (usize, usize), out: &mut String) {
    let pad = "    ".repeat(ind);
    for f in fs {
        match f {
            // the accumulator update keeps a real operation in the same span as the decorator
            F::Blk(id) => out.push_str(&format!("{}mul.{} emit.{} add.{}\n", pad, MUL, id, id)),
            F::If(t, e) => {
                out.push_str(&format!("{}adv_push.1\n{}if.true\n", pad, pad));
                render(t, procs, ind + 1, unroll, inline, counters, out);
                if !e.is_empty() {
                    out.push_str(&format!("{}else\n", pad));
                    render(e, procs, ind + 1, unroll, inline, counters, out);
                }
                out.push_str(&format!("{}end\n", pad));
            }
            F::While(b) => {
                out.push_str(&format!("{}adv_push.1\n{}while.true\n", pad, pad));
                render(b, procs, ind + 1, unroll, inline, counters, out);
                out.push_str(&format!("{}    adv_push.1\n{}end\n", pad, pad));
            }
            F::Repeat(n, b) => {
                let k = counters.0;
                counters.0 += 1;
                if unroll == Some(k) || *n == 0 {
                    // n textual copies (repeat.0 is not valid syntax: zero copies)
                    for _ in 0..*n {
                        render(b, procs, ind, unroll, inline, counters, out);
                    }
                    if *n == 0 {
                        out.push_str(&format!("{}push.0 drop\n", pad));
                    }
                } else {
                    out.push_str(&format!("{}repeat.{}\n", pad, n));
                    render(b, procs, ind + 1, unroll, inline, counters, out);
                    out.push_str(&format!("{}end\n", pad));
                }
            }
            F::Exec(i) => {
                let k = counters.1;
                counters.1 += 1;
                let p = &procs[*i];
                if inline == Some(k) && p.locals == 0 {
                    render(&p.body, procs, ind, unroll, inline, counters, out);
                } else if p.imported {
                    out.push_str(&format!("{}exec.flowlib::f{}\n", pad, i));
                } else {
                    out.push_str(&format!("{}exec.f{}\n", pad, i));
                }
            }
        }
    }
}

fn render_proc_body(i: usize, p: &ProcF, procs: &[ProcF], out: &mut String) {
    // own locals frame: a frame-unique tag is written on entry and re-read after the body
    let tag = 1_000_000 + i as u64;
    for l in 0..p.locals {
        out.push_str(&format!("    push.{} loc_store.{}\n", tag * 10 + l as u64, l));
    }
    let mut c = (usize::MAX / 2, usize::MAX / 2);
    render(&p.body, procs, 1, None, None, &mut c, out);
    for l in 0..p.locals {
        out.push_str(&format!("    loc_load.{} push.{} assert_eq\n", l, tag * 10 + l as u64));
    }
}

fn sources(procs: &[ProcF], main: &[F], unroll: Option<usize>, inline: Option<usize>) -> (String, Option<String>) {
    let mut lib = String::new();
    let mut src = String::new();
    if procs.iter().any(|p| p.imported) {
        src.push_str("use.flow::flowlib\n\n");
    }
    for (i, p) in procs.iter().enumerate() {
        let hdr = format!("{}.f{}{}\n", if p.imported { "export" } else { "proc" }, i, if p.locals > 0 { format!(".{}", p.locals) } else { String::new() });
        let mut body = String::new();
        render_proc_body(i, p, procs, &mut body);
        let target = if p.imported { &mut lib } else { &mut src };
        target.push_str(&hdr);
        target.push_str(&body);
        target.push_str("end\n\n");
    }
    src.push_str("begin\n");
    let mut c = (0, 0);
    render(main, procs, 1, unroll, inline, &mut c, &mut src);
    src.push_str("end\n");
    (src, if lib.is_empty() { None } else { Some(lib) })
}

fn count_sites(fs: &[F], procs: &[ProcF], c: &mut (usize, usize, Vec<usize>)) {
    // (repeat sites, exec sites, exec sites whose callee has no locals)
    for f in fs {
        match f {
            F::Blk(_) => {}
            F::If(t, e) => {
                count_sites(t, procs, c);
                count_sites(e, procs, c);
            }
            F::While(b) => count_sites(b, procs, c),
            F::Repeat(n, b) => {
                c.0 += 1;
                let copies = if *n == 0 { 0 } else { 1 };
                for _ in 0..copies {
                    count_sites(b, procs, c);
                }
            }
            F::Exec(i) => {
                if procs[*i].locals == 0 {
                    c.2.push(c.1);
                }
                c.1 += 1;
            }
        }
    }
}

struct Built {
    procs: Vec<ProcF>,
    main: Vec<F>,
}
fn build(sc: &Value) -> Built {
    let procs = sc["procs"]
        .as_array()
        .cloned()
        .unwrap_or_default()
        .iter()
        .map(|p| ProcF { locals: p["locals"].as_u64().unwrap_or(0) as u32, body: fs_from_json(&p["body"]), imported: p["imported"].as_bool().unwrap_or(false) })
        .collect();
    Built { procs, main: fs_from_json(&sc["main"]) }
}

fn assemble(src: &str, lib: &Option<String>) -> Result<processor::Program, String> {
    use assembly::ast::ModuleAst;
    use assembly::{Assembler, LibraryNamespace, LibraryPath, MaslLibrary, Module, Version};
    match catch(|| {
        let mut a = Assembler::default();
        if let Some(l) = lib {
            let m = Module::new(LibraryPath::new("flow::flowlib").map_err(|e| format!("{e}"))?, ModuleAst::parse(l).map_err(|e| format!("lib: {e}"))?);
            let ml = MaslLibrary::new(LibraryNamespace::new("flow").map_err(|e| format!("{e}"))?, Version::default(), false, vec![m], vec![]).map_err(|e| format!("{e}"))?;
            a = a.with_library(&ml).map_err(|e| format!("{e}"))?;
        }
        a.compile(src).map_err(|e| format!("{e}"))
    }) {
        Ok(r) => r,
        Err((l, m)) => Err(format!("PANIC {l}: {m}")),
    }
}

impl Prop for C06 {
    fn id(&self) -> &'static str {
        "C06"
    }
    fn level(&self) -> &'static str {
        "exploration"
    }
    fn runs(&self, tier: Tier) -> u64 {
        match tier {
            Tier::Quick => 6000,
            Tier::Thorough => 600_000,
        }
    }
    fn rule(&self) -> &'static str {
        "one run = a generated nesting of if/else, while, repeat.n and exec (local and imported procedures, 0-3 locals) in which every condition is popped from the advice stack; the simulated host's decision stream fixes the path. The run executes (1) the fault-free stream: the observed event sequence (block id, accumulator) and the final stack must equal the structural reference model's; (2) twin programs - one repeat.n replaced by n textual copies, one exec of a local-free procedure replaced by its body - which must give the same history; (3) the stream with one decision replaced by a non-binary value (2, p-1, 2^32, random) at a sampled decision point: execution must fail with the event history equal to the model's prefix up to that decision. One evaluation = one execution; non-trivial = at least one decision was taken and the reference path has at least one event; distinct = digest of (structure, decision stream, faults)."
    }
    fn generate(&self, rng: &mut Rng, _tier: Tier, _index: u64) -> Value {
        let nprocs = rng.below(4) as usize;
        let max_nest = rng.range(1, 5) as u32;
        let mut g = GenF { rng, next_id: 0, nprocs };
        let mut procs: Vec<ProcF> = vec![];
        for i in 0..nprocs {
            let pn = max_nest.min(2);
            let body = g.body(0, pn, i);
            let locals = if g.rng.chance(1, 2) { g.rng.range(1, 3) as u32 } else { 0 };
            let imported = g.rng.chance(1, 4);
            procs.push(ProcF { locals, body, imported });
        }
        // imported procedures may only exec other imported ones (a library cannot see the program)
        for i in 0..procs.len() {
            if procs[i].imported {
                fn uses_local(fs: &[F], procs: &[ProcF]) -> bool {
                    fs.iter().any(|f| match f {
                        F::Exec(j) => !procs[*j].imported,
                        F::If(t, e) => uses_local(t, procs) || uses_local(e, procs),
                        F::While(b) | F::Repeat(_, b) => uses_local(b, procs),
                        _ => false,
                    })
                }
                if uses_local(&procs[i].body.clone(), &procs) {
                    procs[i].imported = false;
                }
            }
        }
        // ... and a local procedure used by an imported one cannot exist by construction
        let main = g.body(0, max_nest, nprocs);
        // draw the decision stream with a generation-time walk
        let rng = g.rng;
        let mut w = Walk { decisions: &[], pos: 0, acc: 1, events: vec![], gen: Some(rng), drawn: vec![], budget: 400 };
        let _ = w.run(&main, &procs);
        let decisions = w.drawn.clone();
        let nd = decisions.len() as u64;
        let rng = w.gen.take().unwrap();
        let mut c = (0, 0, vec![]);
        count_sites(&main, &procs, &mut c);
        let mut faults = vec![];
        if nd > 0 {
            for _ in 0..rng.range(1, 3) {
                let v = match rng.below(5) {
                    0 => 2,
                    1 => P - 1,
                    2 => 1 << 32,
                    3 => (1u64 << 32) + 1,
                    _ => 2 + rng.below(P - 2),
                };
                faults.push(json!({"at": rng.below(nd), "value": v.to_string()}));
            }
        }
        json!({
            "procs": procs.iter().map(|p| json!({"locals": p.locals, "imported": p.imported, "body": p.body.iter().map(f_to_json).collect::<Vec<_>>()})).collect::<Vec<_>>(),
            "main": main.iter().map(f_to_json).collect::<Vec<_>>(),
            "decisions": decisions,
            "faults": faults,
            "unroll": if c.0 > 0 { json!(rng.below(c.0 as u64)) } else { Value::Null },
            "inline": if !c.2.is_empty() { json!(*rng.pick(&c.2)) } else { Value::Null },
        })
    }

    fn execute(&self, sc: &Value) -> RunOut {
        let mut out = RunOut::default();
        out.digest = digest_value(sc);
        let b = build(sc);
        let decisions: Vec<u64> = sc["decisions"].as_array().cloned().unwrap_or_default().iter().map(|d| d.as_u64().unwrap_or(0)).collect();
        let (src, lib) = sources(&b.procs, &b.main, None, None);
        let program = match assemble(&src, &lib) {
            Ok(p) => p,
            Err(e) => {
                if e.starts_with("PANIC") {
                    out.violate(format!("C06/assembler-panic/{}", msg_key(&e, 60)), format!("{e}\n{src}"));
                } else {
                    out.count("outcome:assemble-failed");
                    out.sample = Some(json!({"assemble_error": e, "source": src}));
                }
                return out;
            }
        };
        let mut obs = Fnv::new();
        // reference model
        let mut w = Walk { decisions: &decisions, pos: 0, acc: 1, events: vec![], gen: None, drawn: vec![], budget: u64::MAX };
        let _ = w.run(&b.main, &b.procs);
        let model_events = w.events.clone();
        let model_acc = w.acc;
        let used = w.pos;
        let run_with = |prog: &processor::Program, adv: &[u64]| {
            let spec = ProgSpec { source: String::new(), advice_stack: adv.to_vec(), stack_inputs: vec![1], ..Default::default() };
            let mut host = spec.host(vec![], HostCfg { snapshot_stack: true, ..Default::default() });
            let r = vm::run(prog, spec.stack(), &mut host, vm::options(Some(1 << 22), 64, false));
            let ev: Vec<(u32, u64)> = host.log.iter().filter(|e| e.kind == EV_EVENT).map(|e| (e.id, e.stack.first().copied().unwrap_or(0))).collect();
            (r, ev)
        };
        // (1) fault-free
        let (r, ev) = run_with(&program, &decisions);
        out.evals += 1;
        obs.str(&r.class());
        for (i, a) in &ev {
            obs.u64(*i as u64).u64(*a);
        }
        match &r {
            Outcome::Ok(t) => {
                out.cycles += t.trace_len_summary().main_trace_len() as u64;
                if ev != model_events {
                    let k = ev.iter().zip(model_events.iter()).position(|(a, b)| a != b).unwrap_or(ev.len().min(model_events.len()));
                    out.violate("C06/path/event-history-differs", format!("event #{k}: VM {:?}, model {:?} (VM {} events, model {})", ev.get(k), model_events.get(k), ev.len(), model_events.len()));
                }
                let top = t.stack_outputs().stack()[0];
                if top != model_acc {
                    out.violate("C06/path/final-stack-differs", format!("final accumulator {top}, model {model_acc}"));
                }
                if t.stack_outputs().stack().len() != 16 || t.stack_outputs().stack()[1..].iter().any(|x| *x != 0) {
                    out.violate("C06/path/stack-not-neutral", "control flow left something else on the stack");
                }
            }
            Outcome::Err(e) => out.violate(format!("C06/path/failed/{}", vm::err_name(e)), format!("binary decisions only, but execution failed: {e} (after {} events; model expects {})", ev.len(), model_events.len())),
            Outcome::Panic(l, m) => out.violate(format!("C06/path/panic/{}", l), m.clone()),
        }
        out.nontrivial = used > 0 && !model_events.is_empty();
        out.count(&format!("reach:decisions|{}", (used as f64).log2().ceil() as u32));
        // (2) twins
        for (what, unroll, inline) in [("unroll-repeat", sc["unroll"].as_u64().map(|x| x as usize), None), ("inline-exec", None, sc["inline"].as_u64().map(|x| x as usize))] {
            if unroll.is_none() && inline.is_none() {
                continue;
            }
            let (src2, lib2) = sources(&b.procs, &b.main, unroll, inline);
            if src2 == src {
                continue;
            }
            match assemble(&src2, &lib2) {
                Ok(p2) => {
                    let (r2, ev2) = run_with(&p2, &decisions);
                    out.evals += 1;
                    out.count(&format!("fault:twin|{}", what));
                    obs.str(&r2.class());
                    if r2.class() != r.class() {
                        out.violate(format!("C06/twin/{}/outcome-differs", what), format!("{} vs {}", r.class(), r2.class()));
                    } else if ev2 != ev {
                        out.violate(format!("C06/twin/{}/event-history-differs", what), format!("{} events vs {}", ev.len(), ev2.len()));
                    } else if let (Outcome::Ok(t1), Outcome::Ok(t2)) = (&r, &r2) {
                        if t1.stack_outputs() != t2.stack_outputs() {
                            out.violate(format!("C06/twin/{}/final-stack-differs", what), "outputs differ");
                        }
                    }
                }
                Err(e) => {
                    if e.starts_with("PANIC") {
                        out.violate(format!("C06/assembler-panic/{}", msg_key(&e, 60)), format!("{e}\n{src2}"));
                    } else {
                        out.violate(format!("C06/twin/{}/does-not-assemble", what), e);
                    }
                }
            }
        }
        // (3) non-binary answers
        for f in sc["faults"].as_array().cloned().unwrap_or_default() {
            let at = f["at"].as_u64().unwrap_or(0) as usize;
            let v: u64 = f["value"].as_str().and_then(|s| s.parse().ok()).unwrap_or(2);
            if at >= used {
                out.count("probe:fault-after-last-decision");
                continue;
            }
            let mut d2 = decisions.clone();
            d2[at] = v;
            let mut w2 = Walk { decisions: &d2, pos: 0, acc: 1, events: vec![], gen: None, drawn: vec![], budget: u64::MAX };
            let stop = w2.run(&b.main, &b.procs);
            let prefix = w2.events.clone();
            let (r3, ev3) = run_with(&program, &d2);
            out.evals += 1;
            obs.str(&r3.class());
            // which kind of decision point was hit
            out.count("fault:non-binary-decision");
            match (&r3, stop) {
                (Outcome::Err(processor::ExecutionError::NotBinaryValue(_)), Err(_)) => {
                    if ev3 != prefix {
                        out.violate("C06/non-binary/history-not-model-prefix", format!("decision {at} = {v}: {} events before the failure, model {}", ev3.len(), prefix.len()));
                    } else {
                        out.count("reach:non-binary|rejected");
                    }
                }
                (Outcome::Ok(_), Err(_)) => out.violate("C06/non-binary/took-a-path", format!("decision {at} answered with the non-binary value {v}, but execution succeeded ({} events; the model stops after {})", ev3.len(), prefix.len())),
                (Outcome::Err(e), Err(_)) => {
                    // a different error is acceptable only if it is raised at the same point
                    if ev3 != prefix {
                        out.violate(format!("C06/non-binary/other-error/{}", vm::err_name(e)), format!("decision {at} = {v}: failed with {e} after {} events, model prefix has {}", ev3.len(), prefix.len()));
                    } else {
                        out.count(&format!("reach:non-binary|other-error-{}", vm::err_name(e)));
                    }
                }
                (Outcome::Panic(l, m), Err(_)) => out.violate(format!("C06/non-binary/panic/{}", l), format!("decision {at} = {v}: {m}")),
                (_, Ok(())) => out.count("probe:fault-not-reached"),
            }
        }
        out.obs = obs.finish();
        out.sample = Some(json!({"source": src, "library": lib, "decisions": decisions.len(), "decisions_used": used, "events": model_events.len()}));
        out
    }
    fn shrink_arrays(&self) -> Vec<&'static str> {
        vec!["/faults", "/main", "/procs/0/body", "/procs/1/body", "/procs/2/body"]
    }
    fn components_real(&self) -> Vec<&'static str> {
        vec!["assembler (if/while/repeat/exec compilation, imported procedures)", "processor block executors (split, loop, join, span)", "decoder"]
    }
    fn components_simulated(&self) -> Vec<&'static str> {
        vec!["host as path scheduler (decision stream on the advice stack, non-binary answers as faults)", "structural reference model", "twin-program generator"]
    }
    fn assumptions(&self) -> Vec<&'static str> {
        vec!["`mul.31 add.id` arithmetic is correct (instruction semantics are not this property's subject)"]
    }
}
