use crate::framework::Prop;
pub mod c03;
pub mod c04;
pub mod c06;
pub mod c07;
pub mod c09;
pub mod c11;
pub mod c12;
pub mod c13;
pub mod c14;
pub mod c15;
pub mod c18;
pub mod proof;
pub mod serde;

pub fn all() -> Vec<Box<dyn Prop>> {
    vec![Box::new(proof::C01), Box::new(proof::C02), Box::new(c03::C03), Box::new(c04::C04), Box::new(c06::C06), Box::new(c07::C07), Box::new(c09::C09), Box::new(serde::C10), Box::new(serde::C19), Box::new(c11::C11), Box::new(c12::C12), Box::new(c13::C13), Box::new(c14::C14), Box::new(c15::C15), Box::new(c18::C18)]
}
