//! C18 — standard-library memory, stack and collection utilities keep their contracts.
//! Histories of stdlib operations executed by the real VM against the simulated host (which holds
//! the advice map and the Merkle store: this system's durable state), compared after every
//! operation with native models (miden-crypto Smt / Mmr, a word-addressed memory map, RPO).

use crate::framework::*;
use crate::rng::{Fnv, Rng, P};
use crate::world::host::{w, wi, AdvFault, Event, HostCfg, SimAdvice, SimHost, EV_EVENT};
use crate::world::vm::{self, Outcome, ProgSpec};
use processor::crypto::{MerkleStore, RpoDigest};
use processor::{AdviceInputs, StackInputs};
use serde_json::{json, Value};
use std::collections::BTreeMap;
use vm_core::crypto::hash::Rpo256;
use vm_core::crypto::merkle::{Mmr, Smt};
use vm_core::{Felt, StarkField, Word};

pub struct C18;

fn words_json(ws: &[[u64; 4]]) -> Value {
    json!(ws.iter().map(|x| x.iter().map(|v| v.to_string()).collect::<Vec<_>>()).collect::<Vec<_>>())
}
fn words_of(v: &Value) -> Vec<[u64; 4]> {
    v.as_array().cloned().unwrap_or_default().iter().map(vm::word_of).collect()
}
fn pw(x: &[u64; 4]) -> String {
    format!("push.{}.{}.{}.{}", x[0], x[1], x[2], x[3])
}
fn rw(rng: &mut Rng) -> [u64; 4] {
    [rng.below(P), rng.below(P), rng.below(P), rng.below(P)]
}
/// value words with structure: elements summing to zero, zeros in some positions, boundary values
fn vw(rng: &mut Rng) -> [u64; 4] {
    match rng.below(10) {
        0 => {
            let a = 1 + rng.below(P - 1);
            let mut wd = [a, P - a, 0, 0];
            rng.shuffle(&mut wd);
            wd
        }
        1 => {
            let (a, b, c) = (rng.below(P), rng.below(P), rng.below(P));
            let s = ((a as u128 + b as u128 + c as u128) % P as u128) as u64;
            [a, b, c, (P - s) % P]
        }
        2 => {
            let mut wd = [0, 0, 0, 1 + rng.below(P - 1)];
            rng.shuffle(&mut wd);
            wd
        }
        3 => [rng.felt(), rng.felt(), rng.felt(), rng.felt()],
        4 => [P - 1, P - 1, P - 1, P - 1],
        _ => rw(rng),
    }
}
fn top_first(x: &[u64; 4]) -> Vec<u64> {
    vec![x[3], x[2], x[1], x[0]]
}

struct Plan {
    source: String,
    stack_inputs: Vec<u64>, // [0] = top
    advice_stack: Vec<u64>,
    store: Option<MerkleStore>,
    map: Vec<([u64; 4], Vec<u64>)>,
    /// expected observations: event id -> expected top-of-stack prefix
    expect_events: Vec<(u32, Vec<u64>)>,
    /// expected memory (root context) after the program: (addr, word)
    expect_mem: Vec<(u64, [u64; 4])>,
    /// expected final stack prefix (top first) and exact depth, if known
    expect_final: Option<(Vec<u64>, Option<usize>)>,
    must_fail: bool,
    probe: Vec<u32>,
    label: String,
    in_call: bool,
}

fn smt_advice(smt: &Smt) -> (MerkleStore, Vec<([u64; 4], Vec<u64>)>) {
    let store = MerkleStore::from(smt);
    let map = smt
        .leaves()
        .map(|(_, leaf)| {
            let h: Word = leaf.hash().into();
            (wi(&h), leaf.to_elements().iter().map(|e| e.as_int()).collect())
        })
        .collect();
    (store, map)
}

fn build(sc: &Value) -> Plan {
    let kind = sc["kind"].as_str().unwrap_or("");
    let mut p = Plan { source: String::new(), stack_inputs: vec![], advice_stack: vec![], store: None, map: vec![], expect_events: vec![], expect_mem: vec![], expect_final: None, must_fail: false, probe: vec![], label: kind.to_string(), in_call: false };
    match kind {
        "truncate" => {
            let inputs = vm::u64s(&sc["inputs"]);
            let pushes = vm::u64s(&sc["pushes"]);
            let mut src = String::from("use.std::sys\nbegin\n");
            for v in &pushes {
                src.push_str(&format!("    push.{}\n", v));
            }
            src.push_str("    exec.sys::truncate_stack\nend\n");
            // model: stack top first = pushes reversed, then inputs
            let mut st: Vec<u64> = pushes.iter().rev().cloned().collect();
            st.extend(inputs.iter());
            while st.len() < 16 {
                st.push(0);
            }
            st.truncate(16);
            p.source = src;
            p.stack_inputs = inputs;
            p.expect_final = Some((st, Some(16)));
        }
        "memcopy" => {
            let src_ptr = sc["src"].as_u64().unwrap_or(100);
            let dst_ptr = sc["dst"].as_u64().unwrap_or(200);
            let n = sc["n"].as_u64().unwrap_or(0);
            let data = words_of(&sc["data"]);
            let pre = words_of(&sc["pre"]);
            let mut mem: BTreeMap<u64, [u64; 4]> = BTreeMap::new();
            let mut s = String::from("use.std::mem\nbegin\n");
            for (i, wd) in data.iter().enumerate() {
                s.push_str(&format!("    {} mem_storew.{} dropw\n", pw(wd), src_ptr + i as u64));
                mem.insert(src_ptr + i as u64, *wd);
            }
            // pre-existing content around the destination
            for (i, wd) in pre.iter().enumerate() {
                let a = dst_ptr.saturating_sub(1) + i as u64;
                if a >= (1 << 32) {
                    continue;
                }
                if !mem.contains_key(&a) {
                    s.push_str(&format!("    {} mem_storew.{} dropw\n", pw(wd), a));
                    mem.insert(a, *wd);
                }
            }
            s.push_str(&format!("    push.{}.{}.{} exec.mem::memcopy\n    push.0 emit.1 drop\nend\n", dst_ptr, src_ptr, n));
            // the destination receives the words the source region held before the call (regions that
            // overlap are only generated with dst <= src, where this is what a word-by-word copy in
            // ascending order delivers)
            let orig = mem.clone();
            for i in 0..n {
                let v = orig.get(&(src_ptr + i)).cloned().unwrap_or([0; 4]);
                mem.insert(dst_ptr + i, v);
            }
            p.source = s;
            p.expect_mem = mem.into_iter().collect();
            p.expect_final = Some((vec![], Some(16)));
            p.expect_events = vec![(1, vec![0])];
        }
        "pipe_double" => {
            let ptr = sc["ptr"].as_u64().unwrap_or(1000);
            let data = words_of(&sc["data"]);
            let init = words_of(&sc["init"]);
            let n = data.len() as u64;
            p.advice_stack = data.iter().flat_map(|x| x.iter().cloned()).collect();
            // native model: the state [A (capacity), B, C]; every pair of words overwrites the rate and
            // is followed by one RPO permutation
            let mut state = [Felt::new(0); 12];
            for (k, wd) in init.iter().take(3).enumerate() {
                for i in 0..4 {
                    state[4 * k + i] = Felt::new(wd[i]);
                }
            }
            for pair in data.chunks(2) {
                for i in 0..4 {
                    state[4 + i] = Felt::new(pair[0][i]);
                    state[8 + i] = Felt::new(pair[1][i]);
                }
                Rpo256::apply_permutation(&mut state);
            }
            for (i, wd) in data.iter().enumerate() {
                p.expect_mem.push((ptr + i as u64, *wd));
            }
            p.expect_mem.push((ptr + n, [0; 4]));
            // [C, B, A, write_ptr, end_ptr] with A pushed first
            p.source = format!(
                "use.std::mem\nbegin\n    push.{} push.{} {} {} {} exec.mem::pipe_double_words_to_memory\n    emit.1\n    dropw dropw dropw drop\nend\n",
                ptr + n,
                ptr,
                pw(&init[0]),
                pw(&init[1]),
                pw(&init[2])
            );
            let mut e: Vec<u64> = (0..12).rev().map(|i| state[i].as_int()).collect();
            e.push(ptr + n);
            p.expect_events = vec![(1, e)];
            p.expect_final = Some((vec![], Some(16)));
        }
        "pipe_words" | "pipe_preimage" => {
            let ptr = sc["ptr"].as_u64().unwrap_or(1000);
            let data = words_of(&sc["data"]);
            let n = data.len() as u64;
            let flat: Vec<u64> = data.iter().flat_map(|x| x.iter().cloned()).collect();
            let felts: Vec<Felt> = flat.iter().map(|v| Felt::new(*v)).collect();
            let h: Word = Rpo256::hash_elements(&felts).into();
            let hash = wi(&h);
            p.advice_stack = flat.clone();
            for (i, wd) in data.iter().enumerate() {
                p.expect_mem.push((ptr + i as u64, *wd));
            }
            // the word after the written region stays untouched
            p.expect_mem.push((ptr + n, [0; 4]));
            if kind == "pipe_words" {
                p.source = format!("use.std::mem\nbegin\n    push.{}.{} exec.mem::pipe_words_to_memory\n    emit.1\n    dropw drop\nend\n", ptr, n);
                let mut e = top_first(&hash);
                e.push(ptr + n);
                p.expect_events = vec![(1, e)];
                p.expect_final = Some((vec![], Some(16)));
            } else {
                let mut com = hash;
                if sc["corrupt_commitment"].as_bool().unwrap_or(false) {
                    com[(sc["corrupt_at"].as_u64().unwrap_or(0) % 4) as usize] = (com[0] + 1) % P;
                    p.must_fail = true;
                }
                p.source = format!("use.std::mem\nbegin\n    {} push.{}.{} exec.mem::pipe_preimage_to_memory\n    emit.1\n    drop\nend\n", pw(&com), ptr, n);
                p.expect_events = vec![(1, vec![ptr + n])];
                p.expect_final = Some((vec![], Some(16)));
            }
        }
        "smt" => {
            let init = sc["init"].as_array().cloned().unwrap_or_default();
            let entries: Vec<(RpoDigest, Word)> = init.iter().map(|e| (RpoDigest::from(w(vm::word_of(&e["k"]))), w(vm::word_of(&e["v"])))).collect();
            let mut smt = Smt::with_entries(entries).unwrap_or_else(|_| Smt::new());
            let (store, map) = smt_advice(&smt);
            p.store = Some(store);
            p.map = map;
            let r0: Word = smt.root().into();
            let mut s = format!("use.std::collections::smt\nbegin\n    {}\n", pw(&wi(&r0)));
            for (i, o) in sc["ops"].as_array().cloned().unwrap_or_default().iter().enumerate() {
                let ev = (i + 1) as u32;
                let k = vm::word_of(&o["k"]);
                let kd = RpoDigest::from(w(k));
                if o["op"].as_str() == Some("get") {
                    let v = smt.get_value(&kd);
                    let r: Word = smt.root().into();
                    s.push_str(&format!("    {} exec.smt::get emit.{} dropw\n", pw(&k), ev));
                    let mut e = top_first(&wi(&v));
                    e.extend(top_first(&wi(&r)));
                    p.expect_events.push((ev, e));
                } else {
                    let v = vm::word_of(&o["v"]);
                    let old = smt.insert(kd, w(v));
                    let r: Word = smt.root().into();
                    s.push_str(&format!("    {} {} exec.smt::set emit.{} dropw\n", pw(&k), pw(&v), ev));
                    let mut e = top_first(&wi(&old));
                    e.extend(top_first(&wi(&r)));
                    p.expect_events.push((ev, e));
                }
            }
            s.push_str("    dropw\nend\n");
            p.source = s;
            p.expect_final = Some((vec![], Some(16)));
        }
        "mmr" => {
            let ptr = sc["ptr"].as_u64().unwrap_or(1000);
            let ptr2 = ptr + 64;
            let mut mmr = Mmr::new();
            let mut s = String::from("use.std::collections::mmr\nbegin\n");
            let mut ev = 0u32;
            for o in sc["ops"].as_array().cloned().unwrap_or_default() {
                ev += 1;
                match o["op"].as_str().unwrap_or("") {
                    "add" => {
                        let el = vm::word_of(&o["el"]);
                        mmr.add(RpoDigest::from(w(el)));
                        s.push_str(&format!("    push.{} {} exec.mmr::add push.0 emit.{} drop\n", ptr, pw(&el), ev));
                        p.expect_events.push((ev, vec![0]));
                    }
                    "get" => {
                        let n = mmr.forest() as u64;
                        if n == 0 {
                            continue;
                        }
                        let pos = o["pos"].as_u64().unwrap_or(0) % n;
                        let leaf: Word = mmr.get(pos as usize).map(|d| d.into()).unwrap_or([Felt::new(0); 4]);
                        s.push_str(&format!("    push.{} push.{} exec.mmr::get emit.{} dropw\n", ptr, pos, ev));
                        p.expect_events.push((ev, top_first(&wi(&leaf))));
                    }
                    _ => {
                        // pack, then unpack into a second location and compare the memory
                        let n = mmr.forest();
                        if n == 0 {
                            continue;
                        }
                        let peaks = mmr.peaks(n).unwrap();
                        let h: Word = peaks.hash_peaks().into();
                        s.push_str(&format!("    push.{} exec.mmr::pack emit.{}\n    push.{} movdn.4 exec.mmr::unpack push.0 emit.{} drop\n", ptr, ev, ptr2, ev + 1000));
                        p.expect_events.push((ev, top_first(&wi(&h))));
                        p.expect_events.push((ev + 1000, vec![0]));
                    }
                }
            }
            s.push_str("    push.0 emit.9999 drop\nend\n");
            p.expect_events.push((9999, vec![0]));
            // final memory: number of leaves, then the peaks
            let n = mmr.forest();
            p.expect_mem.push((ptr, [n as u64, 0, 0, 0]));
            if n > 0 {
                for (i, pk) in mmr.peaks(n).unwrap().peaks().iter().enumerate() {
                    let wd: Word = (*pk).into();
                    p.expect_mem.push((ptr + 1 + i as u64, wi(&wd)));
                }
            }
            p.source = s;
            p.expect_final = Some((vec![], Some(16)));
        }
        _ => {
            p.source = "begin push.0 drop end".into();
        }
    }
    p.probe = p.expect_mem.iter().filter(|(a, _)| *a < (1 << 32)).map(|(a, _)| *a as u32).collect();
    if sc["in_call"].as_bool().unwrap_or(false) && kind != "truncate" {
        // the same scenario inside a `call`ed procedure: a fresh context with its own memory
        if let Some(at) = p.source.find("begin\n") {
            let mut s = p.source.clone();
            s.replace_range(at..at + 6, "proc.in_ctx\n");
            s.push_str("\nbegin\n    call.in_ctx\nend\n");
            p.source = s;
            p.in_call = true;
        }
    }
    p
}

fn run_plan(p: &Plan, program: &processor::Program, faults: Vec<AdvFault>) -> (Outcome, SimHost) {
    let mut a = AdviceInputs::default().with_stack(p.advice_stack.iter().map(|v| Felt::new(*v)));
    a = a.with_map(p.map.iter().map(|(k, v)| (RpoDigest::from(w(*k)).into(), v.iter().map(|x| Felt::new(*x)).collect::<Vec<_>>())));
    if let Some(s) = &p.store {
        a = a.with_merkle_store(s.clone());
    }
    let mut host = SimHost::new(SimAdvice::new(a, faults), HostCfg { snapshot_stack: true, probe_addrs: p.probe.clone(), ..Default::default() });
    let mut vals: Vec<Felt> = p.stack_inputs.iter().map(|v| Felt::new(*v)).collect();
    vals.reverse();
    let r = vm::run(program, StackInputs::new(vals), &mut host, vm::options(Some(1 << 22), 64, false));
    (r, host)
}

/// compares one execution with the plan; `relaxed` = under host faults (may fail, never wrong)
fn judge(out: &mut RunOut, p: &Plan, r: &Outcome, host: &SimHost, relaxed: bool, tag: &str) {
    let events: Vec<&Event> = host.log.iter().filter(|e| e.kind == EV_EVENT).collect();
    for (k, e) in events.iter().enumerate() {
        let Some((id, want)) = p.expect_events.get(k) else {
            out.violate(format!("C18/{}/extra-event", p.label), format!("[{tag}] unexpected event {}", e.id));
            break;
        };
        if *id != e.id {
            out.violate(format!("C18/{}/event-order", p.label), format!("[{tag}] event #{k}: id {} expected {}", e.id, id));
            break;
        }
        if p.must_fail {
            out.violate(format!("C18/{}/should-fail", p.label), format!("[{tag}] execution continued past a point where it must fail (event {})", e.id));
            break;
        }
        let got: Vec<u64> = e.stack.iter().take(want.len()).cloned().collect();
        if got != *want {
            out.violate(
                format!("C18/{}/wrong-result{}", p.label, if relaxed { "/under-host-fault" } else { "" }),
                format!("[{tag}] after operation #{} (event {}): stack top {:?}, native model {:?}", k + 1, e.id, got, want),
            );
            break;
        }
        out.count(&format!("reach:op-correct|{}", p.label));
    }
    match r {
        Outcome::Ok(t) => {
            if p.must_fail {
                out.violate(format!("C18/{}/should-fail", p.label), format!("[{tag}] execution succeeded although it must fail"));
            }
            if events.len() != p.expect_events.len() && out.violations.is_empty() {
                out.violate(format!("C18/{}/missing-events", p.label), format!("[{tag}] {} of {} observation points reached", events.len(), p.expect_events.len()));
            }
            if let Some((prefix, depth)) = &p.expect_final {
                let st = t.stack_outputs().stack();
                if let Some(d) = depth {
                    if st.len() != *d {
                        out.violate(format!("C18/{}/final-depth", p.label), format!("[{tag}] final stack depth {} expected {}", st.len(), d));
                    }
                }
                if st.len() < prefix.len() || st[..prefix.len()] != prefix[..] {
                    out.violate(format!("C18/{}/final-stack", p.label), format!("[{tag}] final stack {:?} expected {:?}", &st[..st.len().min(16)], prefix));
                }
                if prefix.is_empty() && st.iter().any(|x| *x != 0) {
                    out.violate(format!("C18/{}/stack-not-clean", p.label), format!("[{tag}] the procedure left extra values on the stack: {:?}", &st[..st.len().min(16)]));
                }
            }
            // memory at the last observation point
            if let Some(last) = events.last() {
                for (a, want) in &p.expect_mem {
                    if let Some((_, _, got)) = last.mem.iter().find(|(c, aa, _)| *c == last.ctx && *aa as u64 == *a) {
                        let g = got.unwrap_or([0; 4]);
                        if g != *want {
                            out.violate(format!("C18/{}/memory", p.label), format!("[{tag}] memory at {} (context {}) is {:?}, native model {:?}", a, last.ctx, g, want));
                            break;
                        }
                    }
                    if last.ctx != 0 {
                        out.count("probe:memory-compared-in-callee-context");
                        // executed inside a call: the root context's memory stays untouched
                        if let Some((_, _, Some(g))) = last.mem.iter().find(|(c, aa, _)| *c == 0 && *aa as u64 == *a) {
                            if *g != [0; 4] {
                                out.violate(format!("C18/{}/memory-of-root-context-written", p.label), format!("[{tag}] root context memory at {} is {:?} although everything ran in context {}", a, g, last.ctx));
                                break;
                            }
                        }
                    }
                }
            }
        }
        Outcome::Err(e) => {
            if !p.must_fail && !relaxed {
                out.violate(format!("C18/{}/failed/{}", p.label, vm::err_name(e)), format!("[{tag}] honest host, valid arguments: {e} after {} observation points", events.len()));
            } else {
                out.count(&format!("outcome:{}|failed-{}", p.label, vm::err_name(e)));
            }
        }
        Outcome::Panic(l, m) => {
            if relaxed {
                out.count(&format!("outcome:{}|panic-under-fault", p.label));
            } else {
                out.violate(format!("C18/{}/panic/{}", p.label, l), format!("[{tag}] {m}"));
            }
        }
    }
}

impl Prop for C18 {
    fn id(&self) -> &'static str {
        "C18"
    }
    fn level(&self) -> &'static str {
        "exploration"
    }
    fn runs(&self, tier: Tier) -> u64 {
        match tier {
            Tier::Quick => 1200,
            Tier::Thorough => 80_000,
        }
    }
    fn rule(&self) -> &'static str {
        "one run = one stdlib scenario executed by the real VM against the simulated host: truncate_stack at depths 16..60; memcopy over (pointer, length) pairs incl. zero length, adjacent regions and regions overlapping with dst <= src; pipe_words_to_memory / pipe_preimage_to_memory for 1..9 words, pipe_double_words_to_memory for 2..8 words from an arbitrary hasher state (valid and corrupted commitment); a history of 3-12 SMT set/get operations (insert, update, remove = set to the empty word, absent keys) on one evolving tree held by the host; a history of MMR add/get/pack+unpack operations; one third of the memcopy / pipe / SMT / MMR scenarios run inside a `call`ed procedure (own context: its memory is compared, the root context must stay untouched). After every operation the VM's observable result (values, old values, roots, peaks, hashes, pointers, memory of the root context) must equal the native model (miden-crypto Smt/Mmr, RPO, a word memory map). Fault leg: the host loses or corrupts one advice-map entry / store node / path at a request placed by a dry run: the run may fail, but whatever it reports must still equal the native model. One evaluation = one execution; non-trivial = all observation points of the honest run were compared; distinct = digest of the scenario."
    }
    fn generate(&self, rng: &mut Rng, _tier: Tier, _index: u64) -> Value {
        let mut sc = match rng.below(10) {
            0 | 1 => {
                let n_in = *rng.pick(&[0usize, 3, 15, 16, 17, 24, 40]);
                let n_push = *rng.pick(&[0usize, 1, 2, 7, 16, 20]);
                json!({"kind": "truncate", "inputs": (0..n_in).map(|_| rng.felt().to_string()).collect::<Vec<_>>(), "pushes": (0..n_push).map(|_| rng.felt().to_string()).collect::<Vec<_>>()})
            }
            2 | 3 => {
                let n = *rng.pick(&[0u64, 1, 2, 3, 5, 8]);
                let src = *rng.pick(&[0u64, 100, 4000, (1 << 32) - 20]);
                let high = src > (1 << 31);
                let dst = match rng.below(4) {
                    // overlapping, shifted down by 0..n-1 words (dst <= src)
                    3 if n >= 1 && src >= n => src - rng.below(n),
                    0 | 3 => src + n + 1, // right after the source region
                    1 if !high => src + n + 1 + rng.range(1, 50),
                    _ if high => src - 1000,
                    _ => src + 1000,
                };
                let data: Vec<[u64; 4]> = (0..n + rng.below(2)).map(|_| rw(rng)).collect();
                let pre: Vec<[u64; 4]> = (0..n + 2).map(|_| rw(rng)).collect();
                json!({"kind": "memcopy", "src": src, "dst": dst, "n": n, "data": words_json(&data), "pre": words_json(&pre)})
            }
            4 if rng.chance(1, 3) => {
                // pipe_double_words_to_memory: an even number of words, arbitrary initial hasher state
                let n = 2 * rng.range(1, 5);
                let data: Vec<[u64; 4]> = (0..n).map(|_| rw(rng)).collect();
                let init: Vec<[u64; 4]> = (0..3).map(|_| if rng.chance(1, 2) { [0; 4] } else { rw(rng) }).collect();
                json!({"kind": "pipe_double", "ptr": *rng.pick(&[0u64, 1000, 77777, (1u64 << 32) - n]), "data": words_json(&data), "init": words_json(&init)})
            }
            4 => {
                let n = rng.range(1, 9);
                let data: Vec<[u64; 4]> = (0..n).map(|_| rw(rng)).collect();
                json!({"kind": "pipe_words", "ptr": *rng.pick(&[0u64, 1000, 77777]), "data": words_json(&data)})
            }
            5 => {
                let n = rng.range(1, 9);
                let data: Vec<[u64; 4]> = (0..n).map(|_| rw(rng)).collect();
                json!({"kind": "pipe_preimage", "ptr": *rng.pick(&[0u64, 1000, 77777]), "data": words_json(&data), "corrupt_commitment": rng.chance(1, 3), "corrupt_at": rng.below(4)})
            }
            6..=8 => {
                // keys with pairwise different most significant elements (one key-value pair per leaf)
                let nkeys = rng.range(2, 6);
                let mut keys: Vec<[u64; 4]> = vec![];
                while (keys.len() as u64) < nkeys {
                    let k = rw(rng);
                    if !keys.iter().any(|x| x[3] == k[3]) {
                        keys.push(k);
                    }
                }
                let ninit = rng.below(nkeys);
                let init: Vec<Value> = keys.iter().take(ninit as usize).map(|k| json!({"k": k.iter().map(|x| x.to_string()).collect::<Vec<_>>(), "v": vw(rng).iter().map(|x| x.to_string()).collect::<Vec<_>>()})).collect();
                let nops = rng.range(3, 12);
                let mut ops = vec![];
                for _ in 0..nops {
                    let k = *rng.pick(&keys);
                    let ks: Vec<String> = k.iter().map(|x| x.to_string()).collect();
                    match rng.below(5) {
                        0 | 1 => ops.push(json!({"op": "get", "k": ks})),
                        2 => ops.push(json!({"op": "set", "k": ks, "v": ["0", "0", "0", "0"]})),
                        _ => ops.push(json!({"op": "set", "k": ks, "v": vw(rng).iter().map(|x| x.to_string()).collect::<Vec<_>>()})),
                    }
                }
                json!({"kind": "smt", "init": init, "ops": ops})
            }
            _ => {
                let nops = rng.range(2, 14);
                let mut ops = vec![];
                for i in 0..nops {
                    match if i < 2 { 0 } else { rng.below(6) } {
                        0..=3 => ops.push(json!({"op": "add", "el": rw(rng).iter().map(|x| x.to_string()).collect::<Vec<_>>()})),
                        4 => ops.push(json!({"op": "get", "pos": rng.below(64)})),
                        _ => ops.push(json!({"op": "pack"})),
                    }
                }
                json!({"kind": "mmr", "ptr": *rng.pick(&[1000u64, 5, 123456]), "ops": ops})
            }
        };
        if sc["kind"] != "truncate" && rng.chance(1, 3) {
            sc["in_call"] = json!(true);
        }
        // host faults placed on primitive requests that really occur (dry run)
        let p = build(&sc);
        let spec = ProgSpec { source: p.source.clone(), stdlib: true, ..Default::default() };
        let mut plans: Vec<Value> = vec![];
        if matches!(sc["kind"].as_str(), Some("smt") | Some("mmr") | Some("pipe_preimage") | Some("pipe_words")) {
            if let Ok(program) = spec.assemble(false) {
                let (_, host) = run_plan(&p, &program, vec![]);
                let log = host.adv.request_log.borrow().clone();
                let mut per: BTreeMap<&str, u64> = BTreeMap::new();
                let mut reqs: Vec<(&str, u64)> = vec![];
                for (prim, _) in &log {
                    let c = per.entry(prim).or_insert(0);
                    if matches!(*prim, "push_map" | "get_mapped_values" | "get_tree_node" | "get_merkle_path" | "update_merkle_node" | "merge_roots" | "insert_into_map" | "pop_stack_dword" | "pop_stack_word" | "get_leaf_depth" | "find_lone_leaf") {
                        reqs.push((prim, *c));
                    }
                    *c += 1;
                }
                for _ in 0..rng.range(1, 3).min(reqs.len() as u64) {
                    let (prim, nth) = *rng.pick(&reqs);
                    let (kind, a, b) = match prim {
                        "push_map" | "get_mapped_values" => *rng.pick(&[("lose", 0u64, 0u64), ("corrupt", 1, 0), ("corrupt", 7, 3)]),
                        "get_tree_node" => *rng.pick(&[("err", 0, 0), ("set", 5, 1), ("other_node", 64, 1)]),
                        "get_merkle_path" => *rng.pick(&[("err", 0, 0), ("flip_sibling", 3, 1), ("truncate", 0, 0), ("other_index", 1, 0)]),
                        "update_merkle_node" => *rng.pick(&[("err", 0, 0), ("drop", 0, 0), ("flip_sibling", 2, 2), ("set", 9, 0)]),
                        "merge_roots" => *rng.pick(&[("err", 0, 0), ("swap", 0, 0)]),
                        "insert_into_map" => ("drop", 0, 0),
                        "pop_stack_dword" | "pop_stack_word" => *rng.pick(&[("set", 1, 2), ("reverse", 0, 0), ("swap", 0, 1)]),
                        _ => ("err", 0, 0),
                    };
                    plans.push(json!([AdvFault { prim: prim.to_string(), nth, kind: kind.to_string(), a, b }.to_json()]));
                }
            }
        }
        sc["plans"] = json!(plans);
        sc
    }

    fn execute(&self, sc: &Value) -> RunOut {
        let mut out = RunOut::default();
        out.digest = digest_value(sc);
        let p = build(sc);
        let spec = ProgSpec { source: p.source.clone(), stdlib: true, ..Default::default() };
        let program = match spec.assemble(false) {
            Ok(x) => x,
            Err(e) => {
                if e.starts_with("PANIC") {
                    out.violate(format!("C18/assembler-panic/{}", msg_key(&e, 40)), e);
                } else {
                    out.violate("HARNESS-ERROR/c18-program-does-not-assemble", format!("{e}\n{}", p.source));
                }
                return out;
            }
        };
        let mut obs = Fnv::new();
        let (r, host) = run_plan(&p, &program, vec![]);
        out.evals = 1;
        if let Outcome::Ok(t) = &r {
            out.cycles += t.trace_len_summary().main_trace_len() as u64;
        }
        obs.str(&r.class()).u64(host.log_digest());
        judge(&mut out, &p, &r, &host, false, "honest host");
        out.nontrivial = out.violations.is_empty() && (r.is_ok() || p.must_fail);
        out.count(&format!("reach:kind|{}", p.label));
        let mut subs = vec![out.digest];
        for (pi, plan) in sc["plans"].as_array().cloned().unwrap_or_default().iter().enumerate() {
            let faults: Vec<AdvFault> = plan.as_array().cloned().unwrap_or_default().iter().map(AdvFault::from_json).collect();
            // pipe_* move plain advice data: a lying host changes the data, which only the commitment
            // (pipe_preimage) can notice; for pipe_words corrupted data is not a violation
            if p.label == "pipe_words" {
                continue;
            }
            let (r2, host2) = run_plan(&p, &program, faults);
            out.evals += 1;
            obs.str(&r2.class()).u64(host2.log_digest());
            let fired = host2.adv.fired.borrow().clone();
            for f in &fired {
                out.count(&format!("fault:{}", f));
            }
            if !fired.is_empty() {
                let mut h = Fnv::new();
                h.u64(out.digest).u64(pi as u64 + 1);
                subs.push(h.finish());
            }
            let mut p2 = build(sc);
            if p.label == "pipe_preimage" {
                // corrupted piped data must be caught by the commitment check, or not happen at all
                p2.expect_mem.clear();
            }
            judge(&mut out, &p2, &r2, &host2, true, &format!("host fault {}", plan));
        }
        out.sub_digests = subs;
        out.obs = obs.finish();
        out.sample = Some(json!({"kind": p.label, "source": p.source, "observation_points": p.expect_events.len(), "fault_plans": sc["plans"]}));
        out
    }
    fn shrink_arrays(&self) -> Vec<&'static str> {
        vec!["/plans", "/ops", "/init", "/pushes", "/inputs"]
    }
    fn components_real(&self) -> Vec<&'static str> {
        vec!["stdlib: sys::truncate_stack, mem::{memcopy, pipe_double_words_to_memory, pipe_words_to_memory, pipe_preimage_to_memory}, collections::smt::{set,get}, collections::mmr::{add,get,pack,unpack}", "assembler, processor, advice injectors (smt/merkle), MemAdviceProvider + MerkleStore"]
    }
    fn components_simulated(&self) -> Vec<&'static str> {
        vec!["host persistence and faults (lost / corrupted map entries, nodes, paths)", "native models: miden-crypto Smt and Mmr, RPO hash_elements, memory map"]
    }
    fn assumptions(&self) -> Vec<&'static str> {
        vec!["SMT keys are chosen with pairwise different most significant elements (leaves with several pairs are documented as unimplemented)", "memcopy on overlapping regions is only exercised with dst <= src (ascending copy = memmove semantics); dst > src inside the source region is not judged", "RPO collision resistance for the fault leg"]
    }
}
