#!/bin/bash
# convenience (not registered in MANIFEST): run every quick (or $1) check once (or those listed in $2), print exit codes
TIER=${1:-quick}
LIST=${2:-"C01 C02 C03 C04 C06 C07 C09 C10 C11 C12 C13 C14 C15 C18 C19"}
for p in $LIST; do
  s=$(date +%s)
  out=$(./check $p --tier $TIER 2>&1); rc=$?
  e=$(( $(date +%s) - s ))
  echo "$p rc=$rc ${e}s $(echo "$out" | grep -E '^DONE' | cut -c1-160)"
  echo "$out" | grep -E "^VIOLATION|^HARNESS-ERROR" | head -5
done
