//! C04 — the AIR rejects any deviation from an operation's defined effect (fault injection on the
//! stored trace: seam S8). One stored cell of an otherwise honest row pair is changed to a wrong
//! value; at least one transition constraint of that row pair must evaluate to non-zero.
//!
//! Which cells are *enforced* for which row kind comes from two sources:
//!  (1) the table `sim/data/c04_table.json`: for every (row kind, cell) the verdict D / p / . measured
//!      by `vsim c04learn` on the tree at the time the table was committed, over many traces and the
//!      fixed delta menu: D = every wrong value was rejected on every row of that kind. A D cell that
//!      lets a wrong value through is a violation (a constraint was weakened or unwired);
//!  (2) the documented effects of the operation groups named by the property (DOC_SPEC below, from
//!      docs/src/design/stack/*.md): a documented-enforced cell must be rejected even where the
//!      committed table says it is not (these are the known findings CLK / REPEAT / U32ASSERT2).
//! p cells (value-dependent: e.g. the inverse helper of EQ when both operands are equal) are skipped.

use crate::framework::*;
use crate::gen::pop;
use crate::gen::prog::GenCfg;
use crate::model::air_monitor::{opcode_at, Monitor};
use crate::model::opnames::op_name;
use crate::model::tracecols as tc;
use crate::rng::{Fnv, Rng, P};
use crate::world::host::HostCfg;
use crate::world::vm::{self, Outcome, ProgSpec};
use miden_air::trace::{
    decoder::USER_OP_HELPERS_OFFSET, stack::{B0_COL_IDX, B1_COL_IDX, H0_COL_IDX}, CHIPLETS_OFFSET, CHIPLETS_WIDTH, CLK_COL_IDX, DECODER_TRACE_OFFSET, FMP_COL_IDX, RANGE_CHECK_TRACE_OFFSET, STACK_TRACE_OFFSET,
};
use processor::ColMatrix;
use serde_json::{json, Map, Value};
use std::collections::BTreeMap;
use vm_core::{Felt, StarkField, ZERO};
use winter_prover::Trace;

pub struct C04;

/// (cell name, column, in next row?)
pub fn stack_cells() -> Vec<(String, usize, bool)> {
    let mut v = vec![];
    for i in 0..16 {
        v.push((format!("s{}'", i), STACK_TRACE_OFFSET + i, true));
    }
    v.push(("b0'".into(), STACK_TRACE_OFFSET + B0_COL_IDX, true));
    v.push(("b1'".into(), STACK_TRACE_OFFSET + B1_COL_IDX, true));
    v.push(("h0'".into(), STACK_TRACE_OFFSET + H0_COL_IDX, true));
    v.push(("clk'".into(), CLK_COL_IDX, true));
    v.push(("fmp'".into(), FMP_COL_IDX, true));
    for i in 0..6 {
        v.push((format!("hlp{}", i), DECODER_TRACE_OFFSET + USER_OP_HELPERS_OFFSET + i, false));
    }
    v
}
pub fn chiplet_cells() -> Vec<(String, usize, bool)> {
    let mut v = vec![];
    for i in 0..CHIPLETS_WIDTH {
        v.push((format!("c{}'", i), CHIPLETS_OFFSET + i, true));
        v.push((format!("c{}", i), CHIPLETS_OFFSET + i, false));
    }
    v
}
pub fn range_cells() -> Vec<(String, usize, bool)> {
    vec![
        ("rm'".into(), RANGE_CHECK_TRACE_OFFSET, true),
        ("rv'".into(), RANGE_CHECK_TRACE_OFFSET + 1, true),
        ("rm".into(), RANGE_CHECK_TRACE_OFFSET, false),
        ("rv".into(), RANGE_CHECK_TRACE_OFFSET + 1, false),
    ]
}

/// wrong values for a cell holding `v` (all different from v as field elements); `r` = a seeded element
pub fn menu(v: u64, r: u64) -> Vec<u64> {
    menu_kinds(v, r).into_iter().map(|x| x.1).collect()
}

/// the menu with a name for each wrong-value kind: the relation of the wrong value to the honest one
pub fn menu_kinds(v: u64, r: u64) -> Vec<(&'static str, u64)> {
    let v = v % P;
    let add = |d: u128| ((v as u128 + d) % P as u128) as u64;
    let mut m: Vec<(&'static str, u64)> = vec![("plus1", add(1)), ("minus1", add(P as u128 - 1)), ("plus3", add(3))];
    if v <= 1 {
        m.push(("flip", 1 - v));
        m.push(("two", 2));
    } else {
        m.push(("zero", 0));
        m.push(("one", 1));
    }
    m.push(("random", r % P));
    let mut out: Vec<(&'static str, u64)> = vec![];
    for (k, x) in m {
        if x != v && !out.iter().any(|(_, y)| *y == x) {
            out.push((k, x));
        }
    }
    out
}

/// the wrong value of a given kind for a cell holding `v`
pub fn value_of_kind(kind: &str, v: u64, r: u64) -> Option<u64> {
    menu_kinds(v, r).into_iter().find(|(k, _)| *k == kind).map(|x| x.1)
}

pub fn stack_key(main: &ColMatrix<Felt>, r: usize) -> String {
    let op = op_name(opcode_at(main, r));
    let deep = tc::depth(main, r) > 16;
    format!("op|{}|{}", op, if deep { "deep" } else { "d16" })
}

fn chip_kind(main: &ColMatrix<Felt>, r: usize) -> String {
    let s = |i: usize| tc::g(main, CHIPLETS_OFFSET + i, r);
    if s(0) == 0 {
        format!("hasher[{}{}{}]", s(1), s(2), s(3))
    } else if s(1) == 0 {
        format!("bitwise[{}]", s(2))
    } else if s(2) == 0 {
        format!("memory[{}{}]", s(3), s(4))
    } else if s(3) == 0 {
        format!("kernel[{}]", s(4))
    } else {
        "padding".into()
    }
}
pub fn chip_key(main: &ColMatrix<Felt>, r: usize) -> String {
    let a = chip_kind(main, r);
    let b = chip_kind(main, r + 1);
    // the position within the 8-row cycle matters for the components with periodic columns (hasher,
    // bitwise), not for memory / kernel ROM rows
    let periodic = !(a.starts_with("memory") || a.starts_with("kernel") || a.starts_with("padding"));
    let mut k = if periodic { format!("chip|{}->{}|{}", a, b, r % 8) } else { format!("chip|{}->{}|-", a, b) };
    if a.starts_with("memory") && b.starts_with("memory") {
        use miden_air::trace::chiplets::{MEMORY_ADDR_COL_IDX, MEMORY_CTX_COL_IDX};
        let same_ctx = tc::g(main, MEMORY_CTX_COL_IDX, r) == tc::g(main, MEMORY_CTX_COL_IDX, r + 1);
        let same_addr = tc::g(main, MEMORY_ADDR_COL_IDX, r) == tc::g(main, MEMORY_ADDR_COL_IDX, r + 1);
        k.push_str(if !same_ctx { "|ctx-change" } else if !same_addr { "|addr-change" } else { "|same-addr" });
        // an all-zero word makes "write" and "first read" (and "copy" and "fresh") indistinguishable:
        // rows holding zero words are kinds of their own
        use miden_air::trace::chiplets::MEMORY_V_COL_RANGE;
        let zero = |row: usize| MEMORY_V_COL_RANGE.clone().all(|c| tc::g(main, c, row) == 0);
        if zero(r) {
            k.push_str("|z");
        }
        if zero(r + 1) {
            k.push_str("|Z");
        }
    }
    k
}
pub fn range_key(main: &ColMatrix<Felt>, r: usize) -> String {
    let v0 = tc::g(main, RANGE_CHECK_TRACE_OFFSET + 1, r);
    let v1 = tc::g(main, RANGE_CHECK_TRACE_OFFSET + 1, r + 1);
    let m = tc::g(main, RANGE_CHECK_TRACE_OFFSET, r);
    let d = v1.wrapping_sub(v0);
    format!("range|delta{}|{}", if d == 0 { "0".to_string() } else if d == 1 { "1".to_string() } else { "3^k".to_string() }, if m == 0 { "m0" } else { "m+" })
}

/// evaluates whether changing `col` (in the next or current row of the pair r, r+1) to `val` is
/// rejected by some main transition constraint
pub fn rejected(mon: &Monitor, cur: &[Felt], next: &[Felt], r: usize, col: usize, in_next: bool, val: u64, buf: &mut [Felt]) -> bool {
    let mut c = cur.to_vec();
    let mut n = next.to_vec();
    if in_next {
        n[col] = Felt::new(val);
    } else {
        c[col] = Felt::new(val);
    }
    mon.eval_main(r, &c, &n, buf);
    buf.iter().any(|x| *x != ZERO)
}

/// Documented enforcement for the operation groups named by the property, as
/// (operation, "16 chars for s0'..s15'") with E = enforced, . = not directly enforced (bus / advice
/// fed), d = enforced only when the depth is 16 (position 15 on a left shift), plus always b0' and
/// clk', b1' on right shifts. Source: docs/src/design/stack/{op_constraints,field_ops,u32_ops,
/// stack_ops,system_ops}.md and decoder docs for the control-flow shifts.
pub const DOC_SPEC: &[(&str, &str, &str)] = &[
    // (op, stack positions, extra cells)
    ("Noop", "EEEEEEEEEEEEEEEE", ""), ("Eqz", "EEEEEEEEEEEEEEEE", ""), ("Neg", "EEEEEEEEEEEEEEEE", ""), ("Inv", "EEEEEEEEEEEEEEEE", ""), ("Incr", "EEEEEEEEEEEEEEEE", ""),
    ("Not", "EEEEEEEEEEEEEEEE", ""), ("FmpAdd", "EEEEEEEEEEEEEEEE", ""), ("Expacc", "EEEEEEEEEEEEEEEE", ""), ("Ext2Mul", "EEEEEEEEEEEEEEEE", ""),
    ("Swap", "EEEEEEEEEEEEEEEE", ""), ("SwapW", "EEEEEEEEEEEEEEEE", ""), ("SwapW2", "EEEEEEEEEEEEEEEE", ""), ("SwapW3", "EEEEEEEEEEEEEEEE", ""), ("SwapDW", "EEEEEEEEEEEEEEEE", ""),
    ("MovUp2", "EEEEEEEEEEEEEEEE", ""), ("MovUp3", "EEEEEEEEEEEEEEEE", ""), ("MovUp4", "EEEEEEEEEEEEEEEE", ""), ("MovUp5", "EEEEEEEEEEEEEEEE", ""), ("MovUp6", "EEEEEEEEEEEEEEEE", ""), ("MovUp7", "EEEEEEEEEEEEEEEE", ""), ("MovUp8", "EEEEEEEEEEEEEEEE", ""),
    ("MovDn2", "EEEEEEEEEEEEEEEE", ""), ("MovDn3", "EEEEEEEEEEEEEEEE", ""), ("MovDn4", "EEEEEEEEEEEEEEEE", ""), ("MovDn5", "EEEEEEEEEEEEEEEE", ""), ("MovDn6", "EEEEEEEEEEEEEEEE", ""), ("MovDn7", "EEEEEEEEEEEEEEEE", ""), ("MovDn8", "EEEEEEEEEEEEEEEE", ""),
    ("U32add", "EEEEEEEEEEEEEEEE", "hlp0 hlp1 hlp2"), ("U32sub", "EEEEEEEEEEEEEEEE", "hlp0 hlp1"), ("U32mul", "EEEEEEEEEEEEEEEE", "hlp0 hlp1 hlp2 hlp3"), ("U32div", "EEEEEEEEEEEEEEEE", "hlp0 hlp1 hlp2 hlp3"),
    ("U32assert2", "EEEEEEEEEEEEEEEE", "hlp0 hlp1 hlp2 hlp3"), ("U32split", "EEEEEEEEEEEEEEEE", "hlp0 hlp1 hlp2 hlp3 b1'"),
    ("Assert", "EEEEEEEEEEEEEEEd", ""), ("Eq", "EEEEEEEEEEEEEEEd", ""), ("Add", "EEEEEEEEEEEEEEEd", ""), ("Mul", "EEEEEEEEEEEEEEEd", ""), ("And", "EEEEEEEEEEEEEEEd", ""), ("Or", "EEEEEEEEEEEEEEEd", ""),
    ("Drop", "EEEEEEEEEEEEEEEd", ""), ("FmpUpdate", "EEEEEEEEEEEEEEEd", "fmp'"), ("CSwap", "EEEEEEEEEEEEEEEd", ""), ("CSwapW", "EEEEEEEEEEEEEEEd", ""),
    ("Split", "EEEEEEEEEEEEEEEd", ""), ("Loop", "EEEEEEEEEEEEEEEd", ""), ("Repeat", "EEEEEEEEEEEEEEEd", ""),
    ("U32add3", "EEEEEEEEEEEEEEEd", "hlp0 hlp1 hlp2"), ("U32madd", "EEEEEEEEEEEEEEEd", "hlp0 hlp1 hlp2 hlp3"),
    ("Pad", "EEEEEEEEEEEEEEEE", "b1'"), ("Dup0", "EEEEEEEEEEEEEEEE", "b1'"), ("Dup1", "EEEEEEEEEEEEEEEE", "b1'"), ("Dup2", "EEEEEEEEEEEEEEEE", "b1'"), ("Dup3", "EEEEEEEEEEEEEEEE", "b1'"), ("Dup4", "EEEEEEEEEEEEEEEE", "b1'"),
    ("Dup5", "EEEEEEEEEEEEEEEE", "b1'"), ("Dup6", "EEEEEEEEEEEEEEEE", "b1'"), ("Dup7", "EEEEEEEEEEEEEEEE", "b1'"), ("Dup9", "EEEEEEEEEEEEEEEE", "b1'"), ("Dup11", "EEEEEEEEEEEEEEEE", "b1'"), ("Dup13", "EEEEEEEEEEEEEEEE", "b1'"), ("Dup15", "EEEEEEEEEEEEEEEE", "b1'"),
    ("SDepth", "EEEEEEEEEEEEEEEE", "b1'"), ("Clk", "EEEEEEEEEEEEEEEE", "b1'"), ("Push", ".EEEEEEEEEEEEEEE", "b1'"),
    ("Join", "EEEEEEEEEEEEEEEE", ""), ("Span", "EEEEEEEEEEEEEEEE", ""), ("Respan", "EEEEEEEEEEEEEEEE", ""),
];

pub fn load_table() -> BTreeMap<String, BTreeMap<String, String>> {
    let path = format!("{}/sim/data/c04_table.json", crate::runner::verif_home());
    let mut out = BTreeMap::new();
    if let Ok(txt) = std::fs::read_to_string(path) {
        if let Ok(Value::Object(m)) = serde_json::from_str::<Value>(&txt) {
            for (k, v) in m {
                if let Value::Object(cells) = v {
                    out.insert(k, cells.into_iter().map(|(c, d)| (c, d.as_str().unwrap_or(".").to_string())).collect());
                }
            }
        }
    }
    out
}

/// per (key, cell): (tried, rejected)
pub type Tally = BTreeMap<String, BTreeMap<String, (u64, u64)>>;

/// injects the whole menu into every cell of up to `per_key` rows of every row kind of this trace
pub fn sweep_trace(main: &ColMatrix<Felt>, mon: &Monitor, n_exec: usize, len: usize, per_key: usize, seed: u64, tally: &mut Tally, mut on_miss: impl FnMut(&str, &str, usize, u64, u64, &'static str)) {
    let w = main.num_cols();
    let mut cur = vec![ZERO; w];
    let mut next = vec![ZERO; w];
    let mut buf = vec![ZERO; mon.n_main];
    let mut seen: BTreeMap<String, usize> = BTreeMap::new();
    let sc = stack_cells();
    let cc = chiplet_cells();
    let rc = range_cells();
    let mut rr = Rng::new(seed);
    // rows in a seeded order so that different runs look at different instances of a kind
    let mut rows: Vec<usize> = (0..len - 2).collect();
    rr.shuffle(&mut rows);
    for r in rows {
        main.read_row_into(r, &mut cur);
        main.read_row_into(r + 1, &mut next);
        let mut groups: Vec<(String, &Vec<(String, usize, bool)>)> = vec![];
        if r < n_exec {
            groups.push((stack_key(main, r), &sc));
        }
        groups.push((chip_key(main, r), &cc));
        groups.push((range_key(main, r), &rc));
        for (key, cells) in groups {
            let c = seen.entry(key.clone()).or_insert(0);
            if *c >= per_key {
                continue;
            }
            *c += 1;
            for (name, col, in_next) in cells.iter() {
                let v = if *in_next { next[*col].as_int() } else { cur[*col].as_int() };
                let other = if *in_next { cur[*col].as_int() } else { next[*col].as_int() };
                let component = !key.starts_with("op|");
                for (kind, val) in menu_kinds(v, rr.next()) {
                    // in chiplet / range rows, giving a cell the value the same column holds in the
                    // other row of the pair turns a "changes" transition into a "stays" transition,
                    // which can be a valid transition of another kind: not a deviation to judge
                    if component && val == other {
                        continue;
                    }
                    let rej = rejected(mon, &cur, &next, r, *col, *in_next, val, &mut buf);
                    let e = tally.entry(key.clone()).or_default().entry(name.clone()).or_insert((0, 0));
                    e.0 += 1;
                    if rej {
                        e.1 += 1;
                    } else {
                        on_miss(&key, name, r, v, val, kind);
                    }
                }
            }
        }
    }
}

/// Composite forgeries: a whole row is rewritten consistently under a *wrong interpretation* of the
/// transition, so that every constraint which only looks at the rewritten cells is satisfied and
/// the one constraint tying the interpretation to the facts has to reject it. Each forged pair is
/// invalid by construction (no value coincidence can make it a valid transition):
///  * memory: a pair whose address (or context) changes, forged as a re-access of the same word
///    (d_inv' = 0, delta = clock difference, a read copies the previous row's word and sets s1');
///  * stack: a left shift at depth > 16 forged as a left shift at depth 16 (overflow flag helper
///    h0 = 0, depth kept, zero shifted in at position 15).
/// Returns (name, row, [(column, in next row?, value)]).
pub fn composite_forgeries(main: &ColMatrix<Felt>, n_exec: usize, len: usize, per_kind: usize, seed: u64) -> Vec<(String, usize, Vec<(usize, bool, u64)>)> {
    use miden_air::trace::chiplets::{MEMORY_ADDR_COL_IDX, MEMORY_CLK_COL_IDX, MEMORY_CTX_COL_IDX, MEMORY_D0_COL_IDX, MEMORY_D1_COL_IDX, MEMORY_D_INV_COL_IDX, MEMORY_TRACE_OFFSET, MEMORY_V_COL_RANGE};
    let mut out = vec![];
    let mut seen: BTreeMap<String, usize> = BTreeMap::new();
    let mut rows: Vec<usize> = (0..len - 2).collect();
    Rng::new(seed ^ 0xC0F0).shuffle(&mut rows);
    for r in rows {
        if chip_kind(main, r).starts_with("memory") && chip_kind(main, r + 1).starts_with("memory") {
            let same_ctx = tc::g(main, MEMORY_CTX_COL_IDX, r) == tc::g(main, MEMORY_CTX_COL_IDX, r + 1);
            let same_addr = tc::g(main, MEMORY_ADDR_COL_IDX, r) == tc::g(main, MEMORY_ADDR_COL_IDX, r + 1);
            if !same_ctx || !same_addr {
                let is_read = tc::g(main, MEMORY_TRACE_OFFSET, r + 1) == 1;
                let name = format!("memory/{}-as-reaccess/{}", if !same_ctx { "ctx-change" } else { "addr-change" }, if is_read { "read" } else { "write" });
                let c = seen.entry(name.clone()).or_insert(0);
                if *c < per_kind {
                    *c += 1;
                    let dclk = (tc::g(main, MEMORY_CLK_COL_IDX, r + 1) as u128 + 2 * P as u128 - tc::g(main, MEMORY_CLK_COL_IDX, r) as u128 - 1) % P as u128;
                    let mut cells = vec![(MEMORY_D_INV_COL_IDX, true, 0u64), (MEMORY_D0_COL_IDX, true, dclk as u64), (MEMORY_D1_COL_IDX, true, 0)];
                    if is_read {
                        cells.push((MEMORY_TRACE_OFFSET + 1, true, 1));
                        for col in MEMORY_V_COL_RANGE {
                            cells.push((col, true, tc::g(main, col, r)));
                        }
                    } else {
                        cells.push((MEMORY_TRACE_OFFSET + 1, true, 0));
                    }
                    out.push((name, r, cells));
                }
            }
        }
        if r + 1 < n_exec {
            let (d, d1) = (tc::depth(main, r), tc::depth(main, r + 1));
            if d > 16 && d1 + 1 == d {
                let name = format!("stack/left-shift-at-depth-{}-as-depth-16", if d == 17 { "17" } else { "18+" });
                let c = seen.entry(name.clone()).or_insert(0);
                if *c < per_kind {
                    *c += 1;
                    let cells = vec![
                        (STACK_TRACE_OFFSET + H0_COL_IDX, false, 0u64),
                        (STACK_TRACE_OFFSET + B0_COL_IDX, true, d),
                        (STACK_TRACE_OFFSET + B1_COL_IDX, true, tc::b1(main, r)),
                        (STACK_TRACE_OFFSET + 15, true, 0),
                        (STACK_TRACE_OFFSET + H0_COL_IDX, true, tc::g(main, STACK_TRACE_OFFSET + H0_COL_IDX, r)),
                    ];
                    out.push((name, r, cells));
                }
            }
        }
    }
    out
}

/// `vsim c04learn <traces>`: measures the table on the current tree
pub fn learn(ntraces: u64) -> i32 {
    let nthreads = 16u64;
    let mut handles = vec![];
    for th in 0..nthreads {
        handles.push(std::thread::spawn(move || {
            let mut tally: Tally = BTreeMap::new();
            let mut done = 0u64;
            let mut i = th;
            while i < ntraces {
                let mut rng = Rng::new(crate::rng::run_seed(4242, "c04learn", i));
                i += nthreads;
                let sc = gen_scenario(&mut rng);
                let spec = ProgSpec::from_json(&sc["prog"]);
                let program = match spec.assemble(false) {
                    Ok(p) => p,
                    Err(_) => continue,
                };
                let mut host = spec.host(vec![], HostCfg::default());
                if let Outcome::Ok(t) = vm::run(&program, spec.stack(), &mut host, vm::options(Some(1 << 20), 64, false)) {
                    let mon = Monitor::new(&t, spec.stack());
                    let n = t.trace_len_summary().main_trace_len();
                    sweep_trace(t.main_segment(), &mon, n, t.length(), 6, rng.next(), &mut tally, |_, _, _, _, _, _| {});
                    done += 1;
                }
            }
            (tally, done)
        }));
    }
    let mut tally: Tally = BTreeMap::new();
    let mut done = 0;
    for h in handles {
        let (t, d) = h.join().unwrap();
        done += d;
        for (k, cells) in t {
            let e = tally.entry(k).or_default();
            for (c, (a, b)) in cells {
                let x = e.entry(c).or_insert((0, 0));
                x.0 += a;
                x.1 += b;
            }
        }
    }
    let mut out = Map::new();
    for (k, cells) in &tally {
        let mut m = Map::new();
        for (c, (tried, rej)) in cells {
            let d = if *tried < 40 { "?" } else if rej == tried { "D" } else if *rej == 0 { "." } else { "p" };
            m.insert(c.clone(), json!(d));
        }
        out.insert(k.clone(), Value::Object(m));
    }
    let path = format!("{}/sim/data/c04_table.json", crate::runner::verif_home());
    let _ = std::fs::create_dir_all(format!("{}/sim/data", crate::runner::verif_home()));
    std::fs::write(&path, serde_json::to_string_pretty(&Value::Object(out)).unwrap()).unwrap();
    println!("learned from {} traces: {} row kinds -> {}", done, tally.len(), path);
    0
}

/// rows of every kind of a trace (at most 10 per kind)
fn index_rows(et: &processor::ExecutionTrace) -> BTreeMap<String, Vec<usize>> {
    let (em, en) = (et.main_segment(), et.trace_len_summary().main_trace_len());
    let mut idx: BTreeMap<String, Vec<usize>> = BTreeMap::new();
    for rr in 0..et.length() - 2 {
        let mut keys = vec![chip_key(em, rr), range_key(em, rr)];
        if rr < en {
            keys.push(stack_key(em, rr));
        }
        for k2 in keys {
            let e = idx.entry(k2).or_default();
            if e.len() < 10 {
                e.push(rr);
            }
        }
    }
    idx
}

fn gen_scenario(rng: &mut Rng) -> Value {
    if rng.chance(1, 12) {
        return ladder_scenario(rng);
    }
    let mut cfg = GenCfg::swarm(rng);
    cfg.max_dyn_ops = 2500;
    pop::scenario(rng, cfg)
}

/// "context ladder": 8-30 procedures, each entered once through `call` / `syscall` (a context of its
/// own) and performing 1-5 element / word loads and stores over a pool of four addresses with zero
/// and non-zero values. The memory table of such a trace has one context-change row pair per
/// procedure, in many read/write/zero combinations (ordinary programs have a handful).
fn ladder_scenario(rng: &mut Rng) -> Value {
    let n = rng.range(8, 30);
    let pool = [0u64, 1, 7, (1 << 32) - 1];
    let mut src = String::new();
    for j in 0..n {
        src.push_str(&format!("proc.c{}\n    push.{} drop\n", j, 3000 + j));
        for _ in 0..rng.range(1, 5) {
            let a = *rng.pick(&pool);
            let v = if rng.chance(1, 3) { 0 } else { 1 + rng.below(P - 1) };
            let line = match rng.below(6) {
                0 => format!("push.{} mem_store.{}", v, a),
                1 => format!("push.{}.{}.{}.{} mem_storew.{} dropw", v, if v == 0 { 0 } else { rng.felt() }, if v == 0 { 0 } else { rng.felt() }, v, a),
                2 | 3 => format!("mem_load.{} drop", a),
                4 => format!("padw mem_loadw.{} dropw", a),
                _ => format!("push.{} mem_load drop", a),
            };
            src.push_str(&format!("    {}\n", line));
        }
        src.push_str("end\n\n");
    }
    src.push_str("begin\n");
    for j in 0..n {
        if rng.chance(1, 4) {
            // the root context accesses memory in between as well
            src.push_str(&format!("    push.{} mem_store.{}\n", rng.below(3), rng.pick(&pool)));
        }
        src.push_str(&format!("    call.c{}\n", j));
    }
    src.push_str("end\n");
    json!({"prog": {"source": src, "stack_inputs": [], "advice_stack": []}, "knobs": pop::knobs(rng), "challenges": pop::challenges(rng)})
}

impl Prop for C04 {
    fn id(&self) -> &'static str {
        "C04"
    }
    fn level(&self) -> &'static str {
        "fault_enumeration"
    }
    fn runs(&self, tier: Tier) -> u64 {
        match tier {
            Tier::Quick => 1200,
            Tier::Thorough => 60_000,
        }
    }
    fn rule(&self) -> &'static str {
        "one run = one honest trace (G_all swarm program, or in 1 of 12 runs a context ladder: 8-30 called procedures each accessing a small address pool, which gives many context-change pairs in the memory table); for up to 4 rows of every row kind present (operation x depth regime; chiplet row kind x cycle position; range-checker row kind) every cell of the kind's cell set (next-row stack positions, b0', b1', h0', clk', fmp', current-row helper registers; chiplet and range cells of both rows) is replaced by every value of a fixed wrong-value menu (v+1, v-1, v+3, 0/1 or bit flip, a seeded random element) and all main transition constraints of that row pair are evaluated. One evaluation = one injected wrong value; it counts as non-trivial when the cell is classified enforced (D in the committed table, or documented-enforced for the operation groups the property names); such an injection must be rejected; a wrong value that passes is reported only if the same kind of wrong value also passes on other rows of that kind in this trace and on rows of that kind in up to 12 independent traces (or, where those have no row of the kind, on at least 4 of 4 rows of this trace) (value coincidences do not repeat there). In addition composite forgeries rewrite a whole row under a wrong interpretation of the transition (a memory access to another address or context claimed to be a re-access of the previous word; a left shift at depth > 16 claimed to happen at depth 16) and must be rejected by the row pair's constraints. Distinct = (row kind, cell, wrong-value kind)."
    }
    fn generate(&self, rng: &mut Rng, _tier: Tier, _index: u64) -> Value {
        let mut sc = gen_scenario(rng);
        sc["sweep_seed"] = json!(rng.next() >> 11);
        sc["confirm_seed"] = json!(rng.next() >> 11);
        sc
    }
    fn execute(&self, sc: &Value) -> RunOut {
        let mut out = RunOut::default();
        out.digest = digest_value(sc);
        let table = load_table();
        if table.is_empty() {
            out.violate("HARNESS-ERROR/c04-table-missing", "sim/data/c04_table.json not found or empty");
            return out;
        }
        let spec = ProgSpec::from_json(&sc["prog"]);
        let program = match spec.assemble(false) {
            Ok(p) => p,
            Err(_) => {
                out.count("outcome:assemble-failed");
                return out;
            }
        };
        let mut host = spec.host(vec![], HostCfg::default());
        let t = match vm::run(&program, spec.stack(), &mut host, vm::options(Some(1 << 20), 64, false)) {
            Outcome::Ok(t) => t,
            o => {
                out.count(&format!("outcome:exec-{}", o.class()));
                return out;
            }
        };
        let mon = Monitor::new(&t, spec.stack());
        let n = t.trace_len_summary().main_trace_len();
        out.cycles = n as u64;
        let main = t.main_segment();
        // documented enforcement per op
        let mut doc: BTreeMap<&str, (&str, &str)> = BTreeMap::new();
        for (op, pos, extra) in DOC_SPEC {
            doc.insert(op, (pos, extra));
        }
        let mut tally: Tally = BTreeMap::new();
        let mut misses: Vec<(String, String, usize, u64, u64, &'static str)> = vec![];
        sweep_trace(main, &mon, n, t.length(), 4, sc["sweep_seed"].as_u64().unwrap_or(1), &mut tally, |k, c, r, v, val, kind| misses.push((k.to_string(), c.to_string(), r, v, val, kind)));
        // rows of every kind, for the confirmation of a miss on other rows of the same kind
        let mut rows_of: BTreeMap<String, Vec<usize>> = BTreeMap::new();
        for r in 0..t.length() - 2 {
            if r < n {
                rows_of.entry(stack_key(main, r)).or_default().push(r);
            }
            rows_of.entry(chip_key(main, r)).or_default().push(r);
            rows_of.entry(range_key(main, r)).or_default().push(r);
        }
        let all_cells: Vec<(String, usize, bool)> = stack_cells().into_iter().chain(chiplet_cells()).chain(range_cells()).collect();
        let mut subs = std::collections::BTreeSet::new();
        let mut obs = Fnv::new();
        let mut enforced_evals = 0u64;
        // classification of a (key, cell)
        let classify = |key: &str, cell: &str| -> (&'static str, bool) {
            // returns (source, enforced)
            let learned = table.get(key).and_then(|m| m.get(cell)).map(|s| s.as_str()).unwrap_or("?");
            if learned == "D" {
                return ("table", true);
            }
            if let Some(rest) = key.strip_prefix("op|") {
                let mut it = rest.split('|');
                let op = it.next().unwrap_or("");
                let deep = it.next() == Some("deep");
                if let Some((pos, extra)) = doc.get(op) {
                    if cell == "b0'" || cell == "clk'" {
                        return ("doc", true);
                    }
                    if extra.split(' ').any(|e| e == cell) {
                        return ("doc", true);
                    }
                    if let Some(i) = cell.strip_prefix('s').and_then(|x| x.strip_suffix('\'')).and_then(|x| x.parse::<usize>().ok()) {
                        let c = pos.as_bytes()[i];
                        if c == b'E' || (c == b'd' && !deep) {
                            return ("doc", true);
                        }
                    }
                }
            }
            ("none", false)
        };
        for (key, cells) in &tally {
            for (cell, (tried, rej)) in cells {
                let (src, enf) = classify(key, cell);
                if enf {
                    enforced_evals += tried;
                    out.count_n(&format!("fault:cell-corrupted|{}", key.split('|').next().unwrap_or("")), *tried);
                    let mut h = Fnv::new();
                    h.str(key).str(cell);
                    subs.insert(h.finish());
                    if rej == tried {
                        out.count(&format!("reach:enforced|{}|{}", key, cell));
                    }
                }
                let _ = src;
                obs.str(key).str(cell).u64(*rej);
            }
        }
        let mut judged: std::collections::BTreeSet<(String, String, &'static str)> = Default::default();
        let mut extra: Vec<(Box<processor::ExecutionTrace>, Monitor, BTreeMap<String, Vec<usize>>)> = vec![];
        for (key, cell, r, v, val, kind) in &misses {
            let (src, enf) = classify(key, cell);
            if !enf || !judged.insert((key.clone(), cell.clone(), kind)) {
                continue;
            }
            // A single wrong value that passes may be a coincidence of values (it yields another
            // valid transition). A weakened or unwired constraint lets the same kind of wrong value
            // through on the rows of that kind in general: confirm on up to 40 rows of the kind.
            let (col, in_next) = all_cells.iter().find(|(nm, _, _)| nm == cell).map(|(_, c, nx)| (*c, *nx)).unwrap();
            let w = main.num_cols();
            let (mut cur, mut next, mut buf) = (vec![ZERO; w], vec![ZERO; w], vec![ZERO; mon.n_main]);
            let (mut tried, mut passed) = (0u32, 0u32);
            for rr in rows_of.get(key).map(|v| v.as_slice()).unwrap_or(&[]).iter().take(40) {
                main.read_row_into(*rr, &mut cur);
                main.read_row_into(*rr + 1, &mut next);
                let hv = if in_next { next[col].as_int() } else { cur[col].as_int() };
                if let Some(x) = value_of_kind(kind, hv, *val) {
                    let other = if in_next { cur[col].as_int() } else { next[col].as_int() };
                    if !key.starts_with("op|") && x == other {
                        continue;
                    }
                    tried += 1;
                    if !rejected(&mon, &cur, &next, *rr, col, in_next, x, &mut buf) {
                        passed += 1;
                    }
                }
            }
            if tried < 2 {
                out.count("probe:miss-on-a-single-row-not-judged");
                continue;
            }
            // on few rows every row must agree; on many, at least half
            if (tried <= 3 && passed < tried) || passed * 2 < tried {
                out.count("probe:miss-is-a-value-coincidence");
                continue;
            }
            // second stage: the same kind of wrong value on rows of the same kind in independent traces
            // (other programs, derived from the scenario's confirmation seed). A coincidence of this
            // program's values does not repeat there; a weakened constraint lets it through everywhere.
            {
                if extra.is_empty() {
                    let mut crng = Rng::new(sc["confirm_seed"].as_u64().unwrap_or(0x5eed) ^ 0xC04);
                    for j in 0..12 {
                        if j % 4 == 3 {
                            let esc = ladder_scenario(&mut crng);
                            let espec = ProgSpec::from_json(&esc["prog"]);
                            if let Ok(eprog) = espec.assemble(false) {
                                let mut ehost = espec.host(vec![], HostCfg::default());
                                if let Outcome::Ok(et) = vm::run(&eprog, espec.stack(), &mut ehost, vm::options(Some(1 << 20), 64, false)) {
                                    let emon = Monitor::new(&et, espec.stack());
                                    let idx = index_rows(&et);
                                    extra.push((et, emon, idx));
                                }
                            }
                            continue;
                        }
                        let mut cfg = GenCfg::swarm(&mut crng);
                        cfg.max_dyn_ops = 2500;
                        cfg.w_mem += 3;
                        if j % 3 != 0 {
                            // many contexts touching the same few addresses
                            cfg.allow_call = true;
                            cfg.n_procs = cfg.n_procs.max(3);
                            cfg.w_mem += 4;
                            cfg.w_ctrl += 2;
                        }
                        let esc = pop::scenario(&mut crng, cfg);
                        let espec = ProgSpec::from_json(&esc["prog"]);
                        if let Ok(eprog) = espec.assemble(false) {
                            let mut ehost = espec.host(vec![], HostCfg::default());
                            if let Outcome::Ok(et) = vm::run(&eprog, espec.stack(), &mut ehost, vm::options(Some(1 << 20), 64, false)) {
                                let emon = Monitor::new(&et, espec.stack());
                                let idx = index_rows(&et);
                                extra.push((et, emon, idx));
                            }
                        }
                    }
                }
                let (mut xt, mut xp) = (0u32, 0u32);
                for (et, emon, idx) in &extra {
                    let em = et.main_segment();
                    let (mut cur, mut next, mut buf) = (vec![ZERO; w], vec![ZERO; w], vec![ZERO; emon.n_main]);
                    let mut here = 0;
                    for rr in idx.get(key).map(|v| v.as_slice()).unwrap_or(&[]).iter().cloned() {
                        em.read_row_into(rr, &mut cur);
                        em.read_row_into(rr + 1, &mut next);
                        let hv = if in_next { next[col].as_int() } else { cur[col].as_int() };
                        if let Some(x) = value_of_kind(kind, hv, *val) {
                            let other = if in_next { cur[col].as_int() } else { next[col].as_int() };
                            if !key.starts_with("op|") && x == other {
                                continue;
                            }
                            xt += 1;
                            here += 1;
                            if !rejected(emon, &cur, &next, rr, col, in_next, x, &mut buf) {
                                xp += 1;
                            }
                            if here >= 10 {
                                break;
                            }
                        }
                    }
                }
                if xt < 2 {
                    // no rows of this kind elsewhere: only strong evidence within this trace counts
                    if !(tried >= 4 && passed == tried) {
                        out.count("probe:miss-not-confirmable-on-independent-traces");
                        continue;
                    }
                } else if (xt <= 3 && xp < xt) || xp * 4 < xt * 3 {
                    out.count("probe:miss-is-a-value-coincidence-of-this-trace");
                    continue;
                }
            }
            let what = key.split('|').collect::<Vec<_>>();
            let class = if src == "doc" && table.get(key).and_then(|m| m.get(cell)).map(|s| s != "D").unwrap_or(true) {
                // documented as enforced, and not enforced when the table was committed either
                format!("C04/documented-not-enforced/{}/{}", what.get(1).unwrap_or(&""), cell)
            } else {
                format!("C04/not-rejected/{}/{}", key.replace('|', "/"), cell)
            };
            out.violate(class, format!("row {r} ({key}): cell {cell} changed from {v} to {val} (kind {kind}): no main transition constraint of the row pair is violated; the same kind of wrong value passes on {passed} of {tried} rows of this kind"));
        }
        // composite forgeries (whole-row reinterpretations), judged without any table
        {
            let w = main.num_cols();
            let (mut cur, mut next, mut buf) = (vec![ZERO; w], vec![ZERO; w], vec![ZERO; mon.n_main]);
            for (name, r, cells) in composite_forgeries(main, n, t.length(), 6, sc["sweep_seed"].as_u64().unwrap_or(1)) {
                main.read_row_into(r, &mut cur);
                main.read_row_into(r + 1, &mut next);
                for (col, in_next, val) in &cells {
                    if *in_next {
                        next[*col] = Felt::new(*val);
                    } else {
                        cur[*col] = Felt::new(*val);
                    }
                }
                mon.eval_main(r, &cur, &next, &mut buf);
                enforced_evals += 1;
                out.count(&format!("fault:composite-forgery|{}", name.split('/').next().unwrap_or("")));
                let mut h = Fnv::new();
                h.str("composite").str(&name);
                subs.insert(h.finish());
                if buf.iter().any(|x| *x != ZERO) {
                    out.count(&format!("reach:enforced|composite|{}", name));
                    obs.str(&name).u64(1);
                } else {
                    out.violate(format!("C04/not-rejected/composite/{}", name), format!("row pair {r}: the next row rewritten as {name} ({} cells: {:?}) violates no main transition constraint", cells.len(), cells));
                }
            }
        }
        out.evals = enforced_evals.max(1);
        out.nontrivial = enforced_evals > 0;
        out.sub_digests = subs.into_iter().collect();
        out.obs = obs.finish();
        out.sample = Some(json!({"source": spec.source, "trace_len": t.length(), "cycles": n, "row_kinds": tally.len(), "injections_into_enforced_cells": enforced_evals}));
        out
    }
    fn shrink_candidates(&self, sc: &Value) -> Vec<Value> {
        crate::shrinksrc::prog_candidates(sc, "/prog")
    }
    fn shrink_budget(&self) -> u64 {
        120
    }
    fn components_real(&self) -> Vec<&'static str> {
        vec!["ProcessorAir::evaluate_transition (all stack, range-checker and chiplet constraints)", "processor (honest traces)", "assembler"]
    }
    fn components_simulated(&self) -> Vec<&'static str> {
        vec!["stored-trace corruption (one cell of a row pair)", "enforced-cell classification: committed measurement table + documented effects", "program generator"]
    }
    fn assumptions(&self) -> Vec<&'static str> {
        vec!["a D entry of the committed table states that the tree enforced that cell for every tried wrong value when the table was measured; value-dependent cells (p) are not judged", "auxiliary-segment (bus) constraints other than b_range are not part of this AIR version and are not judged", "single-cell deviations of a single row pair, plus the listed composite forgeries (memory re-access claimed across an address / context change; left shift at depth > 16 claimed as depth 16); other coordinated multi-cell forgeries are not injected"]
    }
}
