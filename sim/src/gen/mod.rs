pub mod prog;
pub mod pop;
pub mod lib;
pub mod boundary;
