//! Independent MAST walker: produces the expected decoder operation stream for a program, driven
//! by the branch / loop / dyn decisions recorded in the trace itself, and compares it row by row
//! with the decoder columns of the stored trace (DESIGN Appendix B).

use crate::model::opnames::op_name;
use crate::model::tracecols as tc;
use miden_air::trace::decoder::{GROUP_COUNT_COL_IDX, HASHER_STATE_OFFSET, IN_SPAN_COL_IDX};
use miden_air::trace::{DECODER_TRACE_OFFSET, STACK_TRACE_OFFSET};
use processor::ColMatrix;
use vm_core::code_blocks::{CodeBlock, Dyn};
use vm_core::{CodeBlockTable, Felt, Operation, Program, StarkField, Word};

#[derive(Debug, Clone)]
pub struct Mismatch {
    pub class: String,
    pub detail: String,
}

pub struct Stats {
    pub rows: usize,
    pub spans: usize,
    pub respans: usize,
    pub noops_after_imm: usize,
    pub noops_padding: usize,
    pub max_nesting: usize,
    pub loop_iterations: usize,
}

struct W<'a> {
    main: &'a ColMatrix<Felt>,
    table: &'a CodeBlockTable,
    pos: usize,
    limit: usize,
    depth: usize,
    st: Stats,
}

fn opcode(main: &ColMatrix<Felt>, row: usize) -> u8 {
    crate::model::air_monitor::opcode_at(main, row)
}

/// own implementation of the documented grouping rules: up to 9 operations per group, up to 8 group
/// slots per batch, an immediate occupies the next free slot of the batch, an operation carrying an
/// immediate is never the 9th of its group. Returns batches of op groups plus the slot count.
pub fn batches_of(ops: &[Operation]) -> Vec<(Vec<Vec<Operation>>, usize)> {
    let mut out = vec![];
    let mut groups: Vec<Vec<Operation>> = vec![];
    let mut cur: Vec<Operation> = vec![];
    let mut slots = 1usize;
    for op in ops {
        let imm = op.imm_value().is_some();
        let fits = if imm {
            if cur.len() < 8 {
                slots < 8
            } else {
                slots + 1 < 8
            }
        } else {
            cur.len() < 9 || slots < 8
        };
        if !fits {
            groups.push(std::mem::take(&mut cur));
            out.push((std::mem::take(&mut groups), slots));
            slots = 1;
        }
        if cur.len() == 9 {
            groups.push(std::mem::take(&mut cur));
            slots += 1;
        }
        if imm {
            if cur.len() == 8 {
                groups.push(std::mem::take(&mut cur));
                slots += 1;
            }
            slots += 1;
        }
        cur.push(*op);
    }
    groups.push(cur);
    out.push((groups, slots));
    out
}

impl<'a> W<'a> {
    fn expect(&mut self, op: Operation, ctx: &str) -> Result<usize, Mismatch> {
        if self.pos >= self.limit {
            return Err(Mismatch { class: "trace-ends-early".into(), detail: format!("expected {} ({ctx}) at row {} but the executed part of the trace ends at {}", op, self.pos, self.limit) });
        }
        let got = opcode(self.main, self.pos);
        if got != op.op_code() {
            return Err(Mismatch {
                class: format!("op-mismatch/expected-{}/got-{}", op_name(op.op_code()), op_name(got)),
                detail: format!("row {}: the program requires {} ({ctx}), the trace holds {}", self.pos, op_name(op.op_code()), op_name(got)),
            });
        }
        if let Some(imm) = op.imm_value() {
            let next_s0 = tc::g(self.main, STACK_TRACE_OFFSET, self.pos + 1);
            if next_s0 != imm.as_int() {
                return Err(Mismatch { class: "push-immediate".into(), detail: format!("row {}: PUSH of {} but the next row's stack top is {}", self.pos, imm.as_int(), next_s0) });
            }
        }
        let r = self.pos;
        self.pos += 1;
        self.st.rows += 1;
        Ok(r)
    }
    fn in_span(&self, row: usize) -> u64 {
        tc::g(self.main, DECODER_TRACE_OFFSET + IN_SPAN_COL_IDX, row)
    }
    fn s0(&self, row: usize) -> u64 {
        tc::g(self.main, STACK_TRACE_OFFSET, row)
    }

    fn block(&mut self, b: &CodeBlock) -> Result<(), Mismatch> {
        self.depth += 1;
        self.st.max_nesting = self.st.max_nesting.max(self.depth);
        if self.depth > 4000 {
            return Err(Mismatch { class: "nesting-too-deep".into(), detail: "walker recursion limit".into() });
        }
        match b {
            CodeBlock::Join(j) => {
                let r = self.expect(Operation::Join, "start of a join block")?;
                self.not_in_span(r)?;
                self.block(j.first())?;
                self.block(j.second())?;
                let r = self.expect(Operation::End, "end of a join block")?;
                self.not_in_span(r)?;
            }
            CodeBlock::Split(s) => {
                let r = self.expect(Operation::Split, "start of a split block")?;
                self.not_in_span(r)?;
                match self.s0(r) {
                    1 => self.block(s.on_true())?,
                    0 => self.block(s.on_false())?,
                    v => return Err(Mismatch { class: "non-binary-decision/split".into(), detail: format!("row {r}: SPLIT executed with {v} on top of the stack in a completed execution") }),
                }
                self.expect(Operation::End, "end of a split block")?;
            }
            CodeBlock::Loop(l) => {
                let r = self.expect(Operation::Loop, "start of a loop block")?;
                self.not_in_span(r)?;
                match self.s0(r) {
                    0 => {}
                    1 => {
                        self.block(l.body())?;
                        self.st.loop_iterations += 1;
                        loop {
                            // the value on top of the stack after the body decides
                            match self.s0(self.pos) {
                                1 => {
                                    self.expect(Operation::Repeat, "loop continues: condition is 1")?;
                                    self.block(l.body())?;
                                    self.st.loop_iterations += 1;
                                }
                                0 => break,
                                v => return Err(Mismatch { class: "non-binary-decision/loop-exit".into(), detail: format!("row {}: {v} on top of the stack after a loop iteration in a completed execution", self.pos) }),
                            }
                        }
                    }
                    v => return Err(Mismatch { class: "non-binary-decision/loop-entry".into(), detail: format!("row {r}: LOOP executed with {v} on top of the stack") }),
                }
                self.expect(Operation::End, "end of a loop block")?;
            }
            CodeBlock::Call(c) => {
                let op = if c.is_syscall() { Operation::SysCall } else { Operation::Call };
                self.expect(op, "start of a call block")?;
                if c.fn_hash() == Dyn::dyn_hash() {
                    self.dyn_block()?;
                } else {
                    let body = self.table.get(c.fn_hash()).ok_or_else(|| Mismatch { class: "call-target-missing".into(), detail: format!("call target {:?} is not in the code block table", c.fn_hash()) })?.clone();
                    self.block(&body)?;
                }
                self.expect(Operation::End, "end of a call block")?;
            }
            CodeBlock::Dyn(_) => self.dyn_block()?,
            CodeBlock::Span(s) => {
                let ops: Vec<Operation> = s.op_batches().iter().flat_map(|b| b.ops().iter().cloned()).collect();
                let batches = batches_of(&ops);
                self.st.spans += 1;
                let r = self.expect(Operation::Span, "start of a span")?;
                self.not_in_span(r)?;
                for (bi, (groups, slots)) in batches.iter().enumerate() {
                    if bi > 0 {
                        let r = self.expect(Operation::Respan, "next operation batch of a span")?;
                        self.not_in_span(r)?;
                        self.st.respans += 1;
                    }
                    for g in groups {
                        for (k, op) in g.iter().enumerate() {
                            let r = self.expect(*op, "operation of a span")?;
                            self.is_in_span(r)?;
                            if k == g.len() - 1 && op.imm_value().is_some() {
                                let r = self.expect(Operation::Noop, "NOOP after a group-final operation carrying an immediate")?;
                                self.is_in_span(r)?;
                                self.st.noops_after_imm += 1;
                            }
                        }
                    }
                    let padded = slots.next_power_of_two();
                    for _ in *slots..padded {
                        let r = self.expect(Operation::Noop, "NOOP for a padding group (batch size is a power of two)")?;
                        self.is_in_span(r)?;
                        self.st.noops_padding += 1;
                    }
                }
                let r = self.expect(Operation::End, "end of a span")?;
                self.not_in_span(r)?;
                let gc = tc::g(self.main, DECODER_TRACE_OFFSET + GROUP_COUNT_COL_IDX, r);
                if gc != 0 {
                    return Err(Mismatch { class: "group-count-not-zero-at-span-end".into(), detail: format!("row {r}: group counter is {gc} at the END of a span") });
                }
            }
            CodeBlock::Proxy(_) => return Err(Mismatch { class: "proxy-executed".into(), detail: "a proxy block cannot be executed".into() }),
        }
        self.depth -= 1;
        Ok(())
    }

    fn dyn_block(&mut self) -> Result<(), Mismatch> {
        let r = self.expect(Operation::Dyn, "start of a dyn block")?;
        // the target is the word on top of the stack at the DYN row
        let w: Word = [
            Felt::new(tc::g(self.main, STACK_TRACE_OFFSET + 3, r)),
            Felt::new(tc::g(self.main, STACK_TRACE_OFFSET + 2, r)),
            Felt::new(tc::g(self.main, STACK_TRACE_OFFSET + 1, r)),
            Felt::new(tc::g(self.main, STACK_TRACE_OFFSET, r)),
        ];
        let body = self.table.get(w.into()).ok_or_else(|| Mismatch { class: "dyn-target-missing".into(), detail: format!("row {r}: dynamic target {:?} is not in the code block table", w) })?.clone();
        self.block(&body)?;
        self.expect(Operation::End, "end of a dyn block")?;
        Ok(())
    }

    fn is_in_span(&self, row: usize) -> Result<(), Mismatch> {
        if self.in_span(row) != 1 {
            return Err(Mismatch { class: "in-span-flag/not-set-inside-span".into(), detail: format!("row {row}: in_span is {} on an operation row of a span", self.in_span(row)) });
        }
        Ok(())
    }
    fn not_in_span(&self, row: usize) -> Result<(), Mismatch> {
        if self.in_span(row) != 0 {
            return Err(Mismatch { class: "in-span-flag/set-outside-span".into(), detail: format!("row {row} ({}): in_span is {}", op_name(opcode(self.main, row)), self.in_span(row)) });
        }
        Ok(())
    }
}

/// `cycles` = number of executed rows (clock at the end of execution); `len` = trace length
pub fn check(program: &Program, main: &ColMatrix<Felt>, cycles: usize, len: usize) -> Result<Stats, Mismatch> {
    let mut w = W { main, table: program.cb_table(), pos: 0, limit: cycles, depth: 0, st: Stats { rows: 0, spans: 0, respans: 0, noops_after_imm: 0, noops_padding: 0, max_nesting: 0, loop_iterations: 0 } };
    w.block(program.root())?;
    if w.pos != cycles {
        return Err(Mismatch { class: "trace-longer-than-program".into(), detail: format!("the program's execution ends at row {}, the trace executed {} rows", w.pos, cycles) });
    }
    // the last executed row is the END of the root block and carries the program hash
    let h: Word = program.hash().into();
    if cycles > 0 {
        for i in 0..4 {
            let v = tc::g(main, DECODER_TRACE_OFFSET + HASHER_STATE_OFFSET + i, cycles - 1);
            if v != h[i].as_int() {
                return Err(Mismatch { class: "final-row-hash".into(), detail: format!("the final END row (row {}) does not carry the program hash in h{}", cycles - 1, i) });
            }
        }
    }
    // everything after it is HALT (the last row holds random values)
    for r in cycles..len - 1 {
        if opcode(main, r) != Operation::Halt.op_code() {
            return Err(Mismatch { class: "padding-not-halt".into(), detail: format!("row {r} after the end of the program holds {}", op_name(opcode(main, r))) });
        }
        for i in 0..4 {
            let v = tc::g(main, DECODER_TRACE_OFFSET + HASHER_STATE_OFFSET + i, r);
            if v != h[i].as_int() {
                return Err(Mismatch { class: "padding-hash".into(), detail: format!("HALT row {r} does not carry the program hash in h{i}") });
            }
        }
    }
    Ok(w.st)
}
