pub mod merkle;
pub mod air_monitor;
pub mod opnames;
pub mod tracecols;
pub mod field;
pub mod mast_walker;
