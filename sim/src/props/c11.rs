//! C11 — assembly is deterministic, history-independent and self-contained.
//! One long-lived assembler instance receives a history of compile requests from the simulated
//! author, some of which abort half-way (invalid sources: the assembler's "crash in the middle of an
//! operation", seam S6); the reference model is a fresh assembler per request.

use crate::framework::*;
use crate::gen::lib::{gen_libs, gen_user_program, libs_to_json, GenLib};
use crate::rng::{Fnv, Rng};
use crate::world::asm::build_lib;
use crate::world::host::HostCfg;
use crate::world::vm::{self, Outcome, ProgSpec};
use assembly::{Assembler, MaslLibrary};
use processor::{ExecutionError, Program};
use serde_json::{json, Value};
use vm_core::code_blocks::{CodeBlock, Dyn};
use vm_core::CodeBlockTable;

pub struct C11;

/// (class, source) of requests that every assembler must refuse (documented error cases at the
/// boundary parameter values)
pub const MUST_FAIL: &[(&str, &str)] = &[
    ("undefined-local-proc", "begin exec.nope end"),
    ("undefined-local-call", "begin call.nope end"),
    ("unknown-module", "use.nolib::zz\nbegin exec.zz::f end"),
    ("dup.16", "begin dup.16 end"),
    ("swap.16", "begin swap.16 end"),
    ("movup.16", "begin movup.16 end"),
    ("movup.1", "begin movup.1 end"),
    ("movdn.16", "begin movdn.16 end"),
    ("movdn.1", "begin movdn.1 end"),
    ("movupw.4", "begin movupw.4 end"),
    ("movdnw.4", "begin movdnw.4 end"),
    ("dupw.4", "begin dupw.4 end"),
    ("swapw.4", "begin swapw.4 end"),
    ("adv_push.0", "begin adv_push.0 end"),
    ("adv_push.17", "begin adv_push.17 end"),
    ("u32shl.32", "begin u32shl.32 end"),
    ("u32shr.32", "begin u32shr.32 end"),
    ("u32rotl.32", "begin u32rotl.32 end"),
    ("u32rotr.32", "begin u32rotr.32 end"),
    ("exp.u65", "begin exp.u65 end"),
    ("push.p", "begin push.18446744069414584321 end"),
    ("push-17-values", "begin push.1.2.3.4.5.6.7.8.9.10.11.12.13.14.15.16.17 end"),
    ("mem_load.2^32", "begin mem_load.4294967296 end"),
    ("mem_store.2^32", "begin push.1 mem_store.4294967296 end"),
    ("mem_loadw.2^32", "begin mem_loadw.4294967296 end"),
    ("mem_storew.2^32", "begin mem_storew.4294967296 end"),
    ("u32wrapping_add.2^32", "begin u32wrapping_add.4294967296 end"),
    ("div.0", "begin push.1 div.0 end"),
    ("u32div.0", "begin push.1 u32div.0 end"),
    ("u32mod.0", "begin push.1 u32mod.0 end"),
    ("u32divmod.0", "begin push.1 u32divmod.0 end"),
    ("loc_load-index-out-of-range", "proc.f.2 loc_load.2 drop end begin exec.f end"),
    ("loc_store-index-out-of-range", "proc.f.2 push.1 loc_store.2 end begin exec.f end"),
    ("loc_loadw-index-out-of-range", "proc.f.1 padw loc_loadw.1 dropw end begin exec.f end"),
    ("loc_storew-index-out-of-range", "proc.f.3 padw loc_storew.3 dropw end begin exec.f end"),
    ("locaddr-index-out-of-range", "proc.f.2 locaddr.2 drop end begin exec.f end"),
    ("loc_load-without-locals", "proc.f loc_load.0 drop end begin exec.f end"),
    ("loc_store-without-locals", "proc.f push.1 loc_store.0 end begin exec.f end"),
    ("locaddr-without-locals", "proc.f locaddr.0 drop end begin exec.f end"),
    ("loc_load-in-main-body", "begin loc_load.0 drop end"),
    ("caller-outside-kernel", "begin padw caller dropw end"),
    ("caller-in-procedure", "proc.f padw caller dropw end begin exec.f end"),
    ("syscall-to-non-kernel-proc", "proc.f push.1 drop end begin syscall.f end"),
    ("export-in-executable", "export.f push.1 drop end begin exec.f end"),
    ("duplicate-procedure-name", "proc.f push.1 drop end proc.f push.2 drop end begin exec.f end"),
    ("unmatched-end", "begin push.1 drop end end"),
    ("missing-end", "begin push.1 if.true push.2 drop"),
    ("unknown-instruction", "begin frobnicate end"),
    ("else-without-if", "begin push.1 else push.2 end end"),
    ("emit.2^32", "begin push.1 emit.4294967296 drop end"),
];

/// valid programs at the boundary parameter values (must be accepted) and decorator-only spans
pub const MUST_PASS: &[(&str, &str)] = &[
    ("dup.15", "begin dup.15 drop end"),
    ("swap.15", "begin swap.15 end"),
    ("movup.15", "begin movup.15 movdn.15 end"),
    ("movup.2", "begin movup.2 movdn.2 end"),
    ("movupw.3", "begin movupw.3 movdnw.3 end"),
    ("adv_push.16-compiles", "begin push.1 if.true adv_push.16 dropw dropw dropw dropw end end"),
    ("u32shl.31", "begin push.1 u32shl.31 drop end"),
    ("exp.u64", "begin push.2 push.3 exp.u64 drop end"),
    ("push.p-1", "begin push.18446744069414584320 drop end"),
    ("push-16-values", "begin push.1.2.3.4.5.6.7.8.9.10.11.12.13.14.15.16 dropw dropw dropw dropw end"),
    ("mem_load.2^32-1", "begin mem_load.4294967295 drop end"),
    ("loc_load-last-index", "proc.f.2 loc_load.1 drop end begin exec.f end"),
    ("decorator-only-body", "begin emit.1 end"),
    ("decorator-before-if", "begin push.1 emit.1 if.true push.2 drop end end"),
    ("decorator-only-branch", "begin push.1 if.true emit.1 else push.2 drop end end"),
    ("trace-before-while", "begin push.0 trace.1 while.true push.0 end end"),
    ("advice-injector-before-exec", "proc.f push.1 drop end begin adv.push_mapval exec.f end"),
    ("decorator-only-procedure", "proc.f emit.7 end begin exec.f end"),
];

fn must_fail_with_lib(libs: &[GenLib], rng: &mut Rng) -> Vec<(String, String)> {
    let mut v = vec![];
    if let Some(l) = libs.first() {
        if let Some(m) = l.modules.first() {
            let short = m.path.rsplit("::").next().unwrap();
            v.push(("undefined-imported-proc".to_string(), format!("use.{}\nbegin exec.{}::no_such_proc_{} end", m.path, short, rng.below(100))));
            v.push(("undefined-imported-call".to_string(), format!("use.{}\nbegin call.{}::no_such_proc end", m.path, short)));
            v.push(("exec-without-import".to_string(), format!("begin exec.{}::{} end", short, m.exports.first().cloned().unwrap_or_else(|| "f".into()))));
        }
    }
    v
}

/// a library whose module re-exports a procedure and also contains a procedure that cannot compile
/// (it invokes a procedure of a library that was never added)
fn broken_lib(libs: &[GenLib]) -> Option<(Value, String)> {
    let l = libs.first()?;
    let m = l.modules.iter().find(|m| !m.exports.is_empty())?;
    let short = m.path.rsplit("::").next().unwrap();
    let f = m.exports.first()?;
    let src = format!("use.{}\nuse.missinglib::x\n\nexport.{}::{}->bar\n\nexport.baz\n    exec.x::q\nend\n", m.path, short, f);
    Some((json!({"namespace": "blib", "version": [0, 1, 0], "deps": [l.namespace.clone()], "modules": [{"path": "blib::m2", "source": src}]}), "use.blib::m2\nbegin\n    exec.m2::bar\nend\n".to_string()))
}

/// a library whose module `m0` fails while its procedures are added to the procedure cache (a wrapper
/// with the same MAST root as a procedure with locals) *after* an earlier export was added, and a
/// module `m1` re-exporting that earlier export: a request through `m1` must fail every time
fn broken_lib_partial_insert() -> (Value, String) {
    let base = "export.withlocals.2\n    push.1 loc_store.0\nend\n";
    let m0 = "use.clib::base\n\nexport.good\n    push.7 drop\nend\n\nexport.wrapper\n    exec.base::withlocals\nend\n";
    let m1 = "use.clib::m0\n\nexport.m0::good->alias\n\nexport.own\n    push.8 drop\nend\n";
    (
        json!({"namespace": "clib", "version": [0, 1, 0], "deps": [], "modules": [
            {"path": "clib::base", "source": base}, {"path": "clib::m0", "source": m0}, {"path": "clib::m1", "source": m1}]}),
        "use.clib::m1\nbegin\n    exec.m1::alias\nend\n".to_string(),
    )
}

fn mk_assembler(libs: &[MaslLibrary], order: &[usize], debug: bool) -> Result<Assembler, String> {
    let mut a = Assembler::default().with_debug_mode(debug);
    for i in order {
        if let Some(l) = libs.get(*i) {
            a = a.with_library(l).map_err(|e| format!("{e}"))?;
        }
    }
    Ok(a)
}

/// library used by the kernel scenarios: `klib::ok` is free of non-inlined invocations, `klib::bad`
/// has procedures that `call` / `procref` (directly, or through an `exec` chain)
const KLIB_OK: &str = "export.twice\n    dup add\nend\n\nexport.bump\n    exec.twice add.1\nend\n";
const KLIB_BAD: &str = "export.leaf\n    push.1 drop\nend\n\nexport.calls\n    call.leaf\nend\n\nexport.refs\n    procref.leaf dropw\nend\n\nexport.chain\n    exec.calls\nend\n";
const KLIB_BAD2: &str = "use.klib::bad\n\nexport.far\n    exec.bad::chain\nend\n";

/// (class, kernel source) of kernels that must be refused: call / syscall / procref where forbidden,
/// written in the kernel module itself or reached through procedures it inlines from a library
pub const KERNEL_MUST_FAIL: &[(&str, &str)] = &[
    ("call-in-kernel", "proc.h push.1 drop end\nexport.k0 call.h end"),
    ("call-in-kernel-second-proc", "proc.h push.1 drop end\nexport.k0 push.2 drop end\nexport.k1 push.3 drop call.h end"),
    ("procref-in-kernel", "proc.h push.1 drop end\nexport.k0 procref.h dropw end"),
    ("syscall-in-kernel", "export.k0 push.1 drop end\nexport.k1 syscall.k0 end"),
    ("call-in-kernel-internal-proc", "proc.h push.1 drop end\nproc.g call.h end\nexport.k0 exec.g end"),
    ("call-in-library-proc-inlined-into-kernel", "use.klib::bad\nexport.k0 exec.bad::calls end"),
    ("procref-in-library-proc-inlined-into-kernel", "use.klib::bad\nexport.k0 exec.bad::refs end"),
    ("call-in-library-chain-inlined-into-kernel", "use.klib::bad\nexport.k0 exec.bad::chain end"),
    ("call-in-second-library-chain-inlined-into-kernel", "use.klib::far\nexport.k0 push.1 drop end\nexport.k1 exec.far::far end"),
    ("call-to-library-proc-in-kernel", "use.klib::ok\nexport.k0 call.ok::twice end"),
    ("undefined-proc-in-kernel", "export.k0 exec.nope end"),
];

/// kernels that must be accepted, with a program that uses them
pub const KERNEL_MUST_PASS: &[(&str, &str, &str)] = &[
    ("plain", "export.k0 push.1 drop end\nexport.k1 padw caller dropw dropw end", "begin syscall.k0 syscall.k1 end"),
    ("inlines-call-free-library", "use.klib::ok\nexport.k0 exec.ok::bump drop push.0 end\nexport.k1 exec.ok::twice end", "begin push.3 syscall.k1 syscall.k0 drop end"),
    ("internal-exec-chain", "proc.h push.1 drop end\nproc.g exec.h exec.h end\nexport.k0 exec.g end", "proc.u syscall.k0 end\nbegin call.u exec.u end"),
];

fn klib_json() -> Value {
    json!({"namespace": "klib", "version": [0, 1, 0], "deps": [], "modules": [
        {"path": "klib::ok", "source": KLIB_OK}, {"path": "klib::bad", "source": KLIB_BAD}, {"path": "klib::far", "source": KLIB_BAD2}]})
}

fn with_kernel(a: Assembler, src: &str) -> Result<Assembler, String> {
    match catch(|| a.with_kernel(src).map_err(|e| format!("{e}"))) {
        Ok(r) => r,
        Err((l, m)) => Err(format!("PANIC {l}: {m}")),
    }
}

/// Ok(program) / Err(message) / Err("PANIC ...")
fn compile(a: &Assembler, src: &str) -> Result<Program, String> {
    match catch(|| a.compile(src).map_err(|e| format!("{e}"))) {
        Ok(r) => r,
        Err((l, m)) => Err(format!("PANIC {l}: {m}")),
    }
}

/// static closure: every CALL / SYSCALL target reachable from the root or from a reachable body is
/// in the code block table; returns the list of reachable target hashes (for program comparison)
fn closure(root: &CodeBlock, table: &CodeBlockTable) -> Result<Vec<[u64; 4]>, String> {
    let mut seen: Vec<[u64; 4]> = vec![];
    let mut work: Vec<CodeBlock> = vec![root.clone()];
    let mut steps = 0;
    while let Some(b) = work.pop() {
        steps += 1;
        if steps > 200_000 {
            break;
        }
        match &b {
            CodeBlock::Join(j) => {
                work.push(j.first().clone());
                work.push(j.second().clone());
            }
            CodeBlock::Split(s) => {
                work.push(s.on_true().clone());
                work.push(s.on_false().clone());
            }
            CodeBlock::Loop(l) => work.push(l.body().clone()),
            CodeBlock::Call(c) => {
                if c.fn_hash() == Dyn::dyn_hash() {
                    continue;
                }
                let w: vm_core::Word = c.fn_hash().into();
                let k = crate::world::host::wi(&w);
                if seen.contains(&k) {
                    continue;
                }
                seen.push(k);
                if c.is_syscall() {
                    // kernel procedures are resolved through the kernel; their bodies must be there too
                }
                match table.get(c.fn_hash()) {
                    Some(body) => work.push(body.clone()),
                    None => return Err(format!("{} target {:?} is not in the code block table", if c.is_syscall() { "syscall" } else { "call" }, k)),
                }
            }
            _ => {}
        }
    }
    seen.sort();
    Ok(seen)
}

fn same_program(a: &Program, b: &Program) -> Result<(), String> {
    if a.hash() != b.hash() {
        return Err("MAST roots differ".into());
    }
    if a.kernel() != b.kernel() {
        return Err("kernels differ".into());
    }
    let ca = closure(a.root(), a.cb_table())?;
    let cb = closure(b.root(), b.cb_table())?;
    if ca != cb {
        return Err("reachable call targets differ".into());
    }
    Ok(())
}

impl Prop for C11 {
    fn id(&self) -> &'static str {
        "C11"
    }
    fn level(&self) -> &'static str {
        "exploration"
    }
    fn runs(&self, tier: Tier) -> u64 {
        match tier {
            Tier::Quick => 1500,
            Tier::Thorough => 150_000,
        }
    }
    fn rule(&self) -> &'static str {
        "one run = one long-lived assembler (seeded library add order, debug mode on/off, optionally a library containing a module that cannot compile) receiving a history of 6-40 compile requests: valid programs over generated libraries (exec/call/procref+dyn of exported, re-exported and local procedures), boundary-parameter programs that must be accepted, and aborting requests that must be refused (undefined procedures, parameters one beyond their range, local indices, forbidden call/syscall/caller, export in an executable, zero divisors, malformed structure); in 40 % of the runs a kernel episode first: kernels that must be refused (call / procref / syscall written in the kernel module or reached through library procedures the kernel inlines) and a kernel that must be accepted, whose users join the history. Reference model: a fresh assembler with the libraries in canonical order compiling the same source once; a second long-lived assembler with the reverse library order. Oracle: same verdict and same program (MAST root, kernel, reachable call targets), never a panic, must-fail refused, must-pass accepted, every call target reachable in a compiled program present in its code block table, and no CodeBlockNotFound at run time. One evaluation = one request; non-trivial = at least one valid and one aborting request were compared; distinct = digest of the history."
    }
    fn generate(&self, rng: &mut Rng, _tier: Tier, _index: u64) -> Value {
        let nlibs = rng.range(1, 3) as usize;
        let libs = gen_libs(rng, nlibs);
        let mut libs_json = libs_to_json(&libs);
        let mut order: Vec<usize> = (0..nlibs).collect();
        rng.shuffle(&mut order);
        let broken = match rng.below(6) {
            0 | 1 => broken_lib(&libs),
            2 => Some(broken_lib_partial_insert()),
            _ => None,
        };
        let mut requests: Vec<Value> = vec![];
        let n = rng.range(6, 40);
        let valid_pool: Vec<String> = (0..rng.range(2, 6)).map(|_| gen_user_program(rng, &libs)).collect();
        let mf_lib = must_fail_with_lib(&libs, rng);
        for _ in 0..n {
            match rng.below(10) {
                0..=3 => {
                    // a valid program; repeats of the same source exercise cache reuse
                    let s = rng.pick(&valid_pool).clone();
                    requests.push(json!({"src": s, "label": "valid"}));
                }
                4..=6 => {
                    let (c, s) = *rng.pick(MUST_FAIL);
                    requests.push(json!({"src": s, "label": format!("must-fail:{}", c)}));
                }
                7 => {
                    if !mf_lib.is_empty() {
                        let (c, s) = rng.pick(&mf_lib).clone();
                        requests.push(json!({"src": s, "label": format!("must-fail:{}", c)}));
                    }
                }
                8 => {
                    let (c, s) = *rng.pick(MUST_PASS);
                    requests.push(json!({"src": s, "label": format!("must-pass:{}", c)}));
                }
                _ => {
                    if let Some((_, req)) = &broken {
                        requests.push(json!({"src": req, "label": "broken-module"}));
                    } else {
                        let s = rng.pick(&valid_pool).clone();
                        requests.push(json!({"src": s, "label": "valid"}));
                    }
                }
            }
        }
        if let Some((bl, req)) = &broken {
            libs_json.as_array_mut().unwrap().push(bl.clone());
            order.push(nlibs);
            // the request is issued at least twice
            requests.push(json!({"src": req, "label": "broken-module"}));
            let at = rng.usize(requests.len());
            requests.insert(at, json!({"src": req, "label": "broken-module"}));
        }
        // kernel episode (40 % of the runs): the assemblers first receive a kernel that must be refused
        // and/or one that must be accepted; with an accepted kernel the history also has programs using it
        let mut kernel = Value::Null;
        if rng.chance(2, 5) {
            let bad: Vec<Value> = (0..rng.range(0, 2)).map(|_| { let (c, k) = *rng.pick(KERNEL_MUST_FAIL); json!({"class": c, "src": k}) }).collect();
            let good = if rng.chance(2, 3) {
                let (c, k, p) = *rng.pick(KERNEL_MUST_PASS);
                for _ in 0..rng.range(1, 3) {
                    let at = rng.usize(requests.len() + 1);
                    requests.insert(at, json!({"src": p, "label": format!("must-pass:kernel-user-{}", c)}));
                }
                json!({"class": c, "src": k})
            } else {
                Value::Null
            };
            kernel = json!({"bad": bad, "good": good});
            libs_json.as_array_mut().unwrap().push(klib_json());
            let at = rng.usize(order.len() + 1);
            order.insert(at, libs_json.as_array().unwrap().len() - 1);
        }
        json!({"libs": libs_json, "order": order, "debug": rng.chance(1, 3), "requests": requests, "kernel": kernel})
    }

    fn execute(&self, sc: &Value) -> RunOut {
        let mut out = RunOut::default();
        out.digest = digest_value(sc);
        let libs_v = sc["libs"].as_array().cloned().unwrap_or_default();
        let mut libs: Vec<MaslLibrary> = vec![];
        for l in &libs_v {
            match catch(|| build_lib(l, false)) {
                Ok(Ok(x)) => libs.push(x),
                Ok(Err(e)) => {
                    out.count("outcome:library-build-failed");
                    out.sample = Some(json!({"error": e}));
                    return out;
                }
                Err((l, m)) => {
                    out.violate(format!("C11/panic/{}", l), format!("building a library: {m}"));
                    return out;
                }
            }
        }
        let order: Vec<usize> = sc["order"].as_array().cloned().unwrap_or_default().iter().map(|x| x.as_u64().unwrap_or(0) as usize).collect();
        let canonical: Vec<usize> = (0..libs.len()).collect();
        let reversed: Vec<usize> = order.iter().rev().cloned().collect();
        let debug = sc["debug"].as_bool().unwrap_or(false);
        let a = match catch(|| mk_assembler(&libs, &order, debug)) {
            Ok(Ok(a)) => a,
            Ok(Err(e)) => {
                out.count(&format!("outcome:with_library-failed|{}", msg_key(&e, 30)));
                return out;
            }
            Err((l, m)) => {
                out.violate(format!("C11/panic/{}", l), format!("with_library: {m}"));
                return out;
            }
        };
        let mut obs = Fnv::new();
        // kernel episode
        let good_kernel: Option<String> = sc["kernel"]["good"]["src"].as_str().map(|x| x.to_string());
        for b in sc["kernel"]["bad"].as_array().cloned().unwrap_or_default() {
            let (class, ksrc) = (b["class"].as_str().unwrap_or("").to_string(), b["src"].as_str().unwrap_or("").to_string());
            out.evals += 1;
            out.count(&format!("fault:aborting-request|kernel-{}", class.split('-').next().unwrap_or("")));
            for ord in [&canonical, &order] {
                let r = mk_assembler(&libs, ord, debug).and_then(|x| with_kernel(x, &ksrc));
                obs.u64(r.is_ok() as u64);
                match r {
                    Ok(_) => out.violate(format!("C11/invalid-accepted/kernel-{}", class), format!("a kernel that must be refused was accepted:\n{ksrc}")),
                    Err(e) => {
                        if let Some(rest) = e.strip_prefix("PANIC ") {
                            let loc = rest.split(':').take(2).collect::<Vec<_>>().join(":");
                            out.violate(format!("C11/panic/{}", loc), format!("with_kernel panicked: {e}\nkernel:\n{ksrc}"));
                        }
                    }
                }
            }
        }
        let mk = |ord: &[usize]| -> Result<Assembler, String> {
            let x = mk_assembler(&libs, ord, debug)?;
            match &good_kernel {
                Some(k) => with_kernel(x, k),
                None => Ok(x),
            }
        };
        let a = match &good_kernel {
            Some(k) => match with_kernel(a, k) {
                Ok(a) => {
                    out.count("probe:kernel-accepted");
                    a
                }
                Err(e) => {
                    let class = sc["kernel"]["good"]["class"].as_str().unwrap_or("");
                    if let Some(rest) = e.strip_prefix("PANIC ") {
                        let loc = rest.split(':').take(2).collect::<Vec<_>>().join(":");
                        out.violate(format!("C11/panic/{}", loc), format!("with_kernel panicked: {e}\nkernel:\n{k}"));
                    } else {
                        out.violate(format!("C11/valid-refused/kernel-{}", class), format!("a valid kernel was refused: {e}\n{k}"));
                    }
                    return out;
                }
            },
            None => a,
        };
        let a_rev = mk(&reversed).ok();
        let (mut n_valid, mut n_abort) = (0, 0);
        for (ri, r) in sc["requests"].as_array().cloned().unwrap_or_default().iter().enumerate() {
            let src = r["src"].as_str().unwrap_or("");
            let label = r["label"].as_str().unwrap_or("valid");
            out.evals += 1;
            let ra = compile(&a, src);
            let fresh = mk(&canonical);
            let rf = match &fresh {
                Ok(f) => compile(f, src),
                Err(e) => Err(e.clone()),
            };
            obs.u64(ra.is_ok() as u64).u64(rf.is_ok() as u64);
            // (ii) never a panic
            for (who, res) in [("instance", &ra), ("fresh", &rf)] {
                if let Err(e) = res {
                    if let Some(rest) = e.strip_prefix("PANIC ") {
                        let loc = rest.split(':').take(2).collect::<Vec<_>>().join(":");
                        out.violate(format!("C11/panic/{}", loc), format!("request #{ri} [{label}] on the {who} assembler panicked: {e}\nsource:\n{src}"));
                    }
                }
            }
            // (i) history independence
            match (&ra, &rf) {
                (Ok(pa), Ok(pf)) => {
                    n_valid += 1;
                    if let Err(why) = same_program(pa, pf) {
                        out.violate("C11/history/program-differs", format!("request #{ri} [{label}]: the long-lived assembler and a fresh one produce different programs: {why}\nsource:\n{src}"));
                    }
                    // (vi) closure, static and dynamic
                    if let Err(why) = closure(pa.root(), pa.cb_table()) {
                        out.violate("C11/closure/call-target-missing", format!("request #{ri} [{label}]: {why}\nsource:\n{src}"));
                    }
                    let spec = ProgSpec::default();
                    let mut host = spec.host(vec![], HostCfg::default());
                    match vm::run(pa, spec.stack(), &mut host, vm::options(Some(1 << 18), 64, false)) {
                        Outcome::Err(ExecutionError::CodeBlockNotFound(d)) => out.violate("C11/closure/code-block-not-found-at-run-time", format!("request #{ri} [{label}]: execution failed: code block {:?} not found\nsource:\n{src}", d)),
                        Outcome::Err(ExecutionError::DynamicCodeBlockNotFound(d)) => out.violate("C11/closure/dynamic-code-block-not-found", format!("request #{ri} [{label}]: procref target {:?} missing at run time\nsource:\n{src}", d)),
                        Outcome::Ok(t) => {
                            out.cycles += t.trace_len_summary().main_trace_len() as u64;
                            out.count("probe:compiled-program-executed");
                        }
                        o => out.count(&format!("outcome:exec-{}", o.class().split(':').take(2).collect::<Vec<_>>().join(":"))),
                    }
                    // (iv) library order
                    if let Some(ar) = &a_rev {
                        match compile(ar, src) {
                            Ok(pr) => {
                                if let Err(why) = same_program(&pr, pf) {
                                    out.violate("C11/library-order/program-differs", format!("request #{ri}: {why}"));
                                }
                            }
                            Err(e) => out.violate("C11/library-order/result-differs", format!("request #{ri} [{label}] compiles with one library order but not with the reverse one: {e}")),
                        }
                    }
                }
                (Err(_), Err(_)) => n_abort += 1,
                (Ok(_), Err(e)) => {
                    if !e.starts_with("PANIC") {
                        out.violate(
                            format!("C11/history/accepted-only-with-history{}", if label == "broken-module" { "/alias-of-broken-module" } else { "" }),
                            format!("request #{ri} [{label}] is refused by a fresh assembler ({e}) but accepted by the instance that compiled {} earlier requests\nsource:\n{src}", ri),
                        );
                    }
                }
                (Err(e), Ok(_)) => {
                    if !e.starts_with("PANIC") {
                        out.violate("C11/history/refused-only-with-history", format!("request #{ri} [{label}] compiles on a fresh assembler but is refused by the long-lived instance: {e}\nsource:\n{src}"));
                    }
                }
            }
            // (iii) labelled verdicts
            if let Some(class) = label.strip_prefix("must-fail:") {
                if rf.is_ok() {
                    out.violate(format!("C11/invalid-accepted/{}", class), format!("an invalid program was assembled without error:\n{src}"));
                }
                out.count(&format!("fault:aborting-request|{}", class.split('-').next().unwrap_or("")));
            }
            if let Some(class) = label.strip_prefix("must-pass:") {
                if let Err(e) = &rf {
                    if !e.starts_with("PANIC") {
                        out.violate(format!("C11/valid-refused/{}", class), format!("a valid program was refused: {e}\n{src}"));
                    }
                }
            }
            if label == "broken-module" {
                out.count("fault:aborting-request|broken-module");
            }
        }
        out.nontrivial = n_valid > 0 && n_abort > 0;
        out.obs = obs.finish();
        out.sample = Some(json!({"libraries": libs.len(), "requests": sc["requests"].as_array().map(|a| a.len()), "valid_compared": n_valid, "aborting": n_abort, "first_request": sc["requests"][0]}));
        out
    }
    fn shrink_arrays(&self) -> Vec<&'static str> {
        vec!["/requests"]
    }
    fn components_real(&self) -> Vec<&'static str> {
        vec!["Assembler (one long-lived instance with its procedure cache; fresh instances as the reference)", "module provider / library loading", "parser", "processor (run-time closure check)"]
    }
    fn components_simulated(&self) -> Vec<&'static str> {
        vec!["author issuing a history of valid and aborting compile requests", "library generator incl. a module that cannot compile", "static call-target closure walk"]
    }
    fn assumptions(&self) -> Vec<&'static str> {
        vec!["program equality = MAST root, kernel and the set of reachable call targets", "the must-fail table lists documented error cases only"]
    }
}
