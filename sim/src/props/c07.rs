//! C07 — contexts isolate memory and stack; memory is zero-initialised word RAM.
//! Call trees (exec / call / syscall / dyncall / dynexec) whose procedures interleave loads and
//! stores over a small address pool shared by all contexts (seam S9). Every value is a known
//! constant, so a small reference interpreter with per-context memory maps, per-frame locals and a
//! concrete stack predicts every observation event (stack snapshot, fmp, context identity, memory
//! probes taken by the simulated host).

use crate::framework::*;
use crate::rng::{Fnv, Rng, P};
use crate::world::host::{Event, HostCfg, EV_EVENT};
use crate::world::vm::{self, Outcome, ProgSpec};
use serde_json::{json, Value};
use std::collections::BTreeMap;

pub struct C07;

const FMP_MIN: u64 = 1 << 30;
const SYSCALL_FMP_MIN: u64 = 1 << 31;

#[derive(Clone, Debug)]
enum A {
    StoreEl { addr: u64, v: u64, imm: bool },
    StoreW { addr: u64, w: [u64; 4], imm: bool },
    LoadEl { addr: u64, imm: bool, ev: u32 },
    LoadW { addr: u64, imm: bool, ev: u32 },
    LocStore { i: u32, v: u64 },
    LocLoad { i: u32, ev: u32 },
    LocStoreW { i: u32, w: [u64; 4] },
    LocLoadW { i: u32, ev: u32 },
    Stream { addr: u64, ev: u32 },
    Pipe { addr: u64, w: [u64; 8], ev: u32 },
    /// push `n` known values (deep caller stack), invoke, observe, drop them again
    Invoke { how: String, proc_: usize, deep: Vec<u64>, ev: u32 },
    Obs { ev: u32 },
    Caller { ev: u32 },
    /// fault / must-fail actions
    BadAddr { kind: u32 },
    ExtraPush,
}

#[derive(Clone, Debug)]
struct ProcC {
    locals: u32,
    kind: String, // "plain" | "callable" | "kernel"
    body: Vec<A>,
}

fn w4(v: &Value) -> [u64; 4] {
    let x = vm::u64s(v);
    [x[0], x[1], x[2], x[3]]
}
fn a_to_json(a: &A) -> Value {
    let s = |v: &[u64]| v.iter().map(|x| x.to_string()).collect::<Vec<_>>();
    match a {
        A::StoreEl { addr, v, imm } => json!({"a": "store", "addr": addr.to_string(), "v": v.to_string(), "imm": imm}),
        A::StoreW { addr, w, imm } => json!({"a": "storew", "addr": addr.to_string(), "w": s(w), "imm": imm}),
        A::LoadEl { addr, imm, ev } => json!({"a": "load", "addr": addr.to_string(), "imm": imm, "ev": ev}),
        A::LoadW { addr, imm, ev } => json!({"a": "loadw", "addr": addr.to_string(), "imm": imm, "ev": ev}),
        A::LocStore { i, v } => json!({"a": "loc_store", "i": i, "v": v.to_string()}),
        A::LocLoad { i, ev } => json!({"a": "loc_load", "i": i, "ev": ev}),
        A::LocStoreW { i, w } => json!({"a": "loc_storew", "i": i, "w": s(w)}),
        A::LocLoadW { i, ev } => json!({"a": "loc_loadw", "i": i, "ev": ev}),
        A::Stream { addr, ev } => json!({"a": "stream", "addr": addr.to_string(), "ev": ev}),
        A::Pipe { addr, w, ev } => json!({"a": "pipe", "addr": addr.to_string(), "w": s(w), "ev": ev}),
        A::Invoke { how, proc_, deep, ev } => json!({"a": "invoke", "how": how, "proc": proc_, "deep": s(deep), "ev": ev}),
        A::Obs { ev } => json!({"a": "obs", "ev": ev}),
        A::Caller { ev } => json!({"a": "caller", "ev": ev}),
        A::BadAddr { kind } => json!({"a": "badaddr", "kind": kind}),
        A::ExtraPush => json!({"a": "extrapush"}),
    }
}
fn a_from_json(v: &Value) -> A {
    let u = |k: &str| v[k].as_str().and_then(|s| s.parse::<u64>().ok()).or(v[k].as_u64()).unwrap_or(0);
    let ev = v["ev"].as_u64().unwrap_or(0) as u32;
    let imm = v["imm"].as_bool().unwrap_or(false);
    match v["a"].as_str().unwrap_or("") {
        "store" => A::StoreEl { addr: u("addr"), v: u("v"), imm },
        "storew" => A::StoreW { addr: u("addr"), w: w4(&v["w"]), imm },
        "load" => A::LoadEl { addr: u("addr"), imm, ev },
        "loadw" => A::LoadW { addr: u("addr"), imm, ev },
        "loc_store" => A::LocStore { i: u("i") as u32, v: u("v") },
        "loc_load" => A::LocLoad { i: u("i") as u32, ev },
        "loc_storew" => A::LocStoreW { i: u("i") as u32, w: w4(&v["w"]) },
        "loc_loadw" => A::LocLoadW { i: u("i") as u32, ev },
        "stream" => A::Stream { addr: u("addr"), ev },
        "pipe" => {
            let x = vm::u64s(&v["w"]);
            let mut w = [0u64; 8];
            for (i, y) in x.iter().take(8).enumerate() {
                w[i] = *y;
            }
            A::Pipe { addr: u("addr"), w, ev }
        }
        "invoke" => A::Invoke { how: v["how"].as_str().unwrap_or("exec").to_string(), proc_: u("proc") as usize, deep: vm::u64s(&v["deep"]), ev },
        "caller" => A::Caller { ev },
        "badaddr" => A::BadAddr { kind: u("kind") as u32 },
        "extrapush" => A::ExtraPush,
        _ => A::Obs { ev },
    }
}

struct G<'a> {
    rng: &'a mut Rng,
    pool: Vec<u64>,
    ev: u32,
}
impl<'a> G<'a> {
    fn ev(&mut self) -> u32 {
        self.ev += 1;
        self.ev
    }
    fn val(&mut self) -> u64 {
        // distinct-looking non-zero values
        1 + self.rng.below(P - 1)
    }
    fn addr(&mut self) -> u64 {
        *self.rng.pick(&self.pool.clone())
    }
    fn body(&mut self, locals: u32, kind: &str, procs: &[ProcC], len: usize) -> Vec<A> {
        let mut v = vec![];
        for _ in 0..len {
            let c = self.rng.below(if locals > 0 { 16 } else { 12 });
            let imm = self.rng.chance(1, 2);
            let a = match c {
                0 | 1 => A::StoreEl { addr: self.addr(), v: self.val(), imm },
                2 => A::StoreW { addr: self.addr(), w: [self.val(), self.val(), self.val(), self.val()], imm },
                3 | 4 => A::LoadEl { addr: self.addr(), imm, ev: self.ev() },
                5 => A::LoadW { addr: self.addr(), imm, ev: self.ev() },
                6 => {
                    let a = self.addr();
                    A::Stream { addr: if a >= (1 << 32) - 2 { a - 2 } else { a }, ev: self.ev() }
                }
                7 => {
                    let a = self.addr();
                    let mut w = [0u64; 8];
                    for x in w.iter_mut() {
                        *x = self.val();
                    }
                    A::Pipe { addr: if a >= (1 << 32) - 2 { a - 2 } else { a }, w, ev: self.ev() }
                }
                8 => A::Obs { ev: self.ev() },
                9 if kind == "kernel" => A::Caller { ev: self.ev() },
                9..=11 => {
                    // invocation of an earlier procedure
                    let cands: Vec<usize> = (0..procs.len())
                        .filter(|j| match (kind, procs[*j].kind.as_str()) {
                            ("kernel", "kernel") => true,
                            ("kernel", _) => false,
                            (_, _) => true,
                        })
                        .collect();
                    if cands.is_empty() {
                        A::Obs { ev: self.ev() }
                    } else {
                        let j = *self.rng.pick(&cands);
                        let how = match (kind, procs[j].kind.as_str()) {
                            ("kernel", _) => "exec",
                            (_, "kernel") => "syscall",
                            (_, "callable") => *self.rng.pick(&["call", "call", "dyncall"]),
                            _ => *self.rng.pick(&["exec", "exec", "dynexec"]),
                        };
                        let ndeep = *self.rng.pick(&[0usize, 0, 1, 5, 16, 17, 24]);
                        let deep: Vec<u64> = (0..ndeep).map(|_| self.val()).collect();
                        A::Invoke { how: how.to_string(), proc_: j, deep, ev: self.ev() }
                    }
                }
                12 => A::LocStore { i: self.rng.below(locals as u64) as u32, v: self.val() },
                13 => A::LocLoad { i: self.rng.below(locals as u64) as u32, ev: self.ev() },
                14 => A::LocStoreW { i: self.rng.below(locals as u64) as u32, w: [self.val(), self.val(), self.val(), self.val()] },
                _ => A::LocLoadW { i: self.rng.below(locals as u64) as u32, ev: self.ev() },
            };
            v.push(a);
        }
        v
    }
}

fn word_push(w: &[u64; 4]) -> String {
    format!("push.{}.{}.{}.{}", w[0], w[1], w[2], w[3])
}

fn render(body: &[A], procs: &[ProcC], ind: usize, out: &mut String) {
    let pad = "    ".repeat(ind);
    for a in body {
        let line = match a {
            A::StoreEl { addr, v, imm } => {
                if *imm {
                    format!("push.{} mem_store.{}", v, addr)
                } else {
                    format!("push.{} push.{} mem_store", v, addr)
                }
            }
            A::StoreW { addr, w, imm } => {
                if *imm {
                    format!("{} mem_storew.{} dropw", word_push(w), addr)
                } else {
                    format!("{} push.{} mem_storew dropw", word_push(w), addr)
                }
            }
            A::LoadEl { addr, imm, ev } => {
                if *imm {
                    format!("mem_load.{} emit.{} drop", addr, ev)
                } else {
                    format!("push.{} mem_load emit.{} drop", addr, ev)
                }
            }
            A::LoadW { addr, imm, ev } => {
                if *imm {
                    format!("padw mem_loadw.{} emit.{} dropw", addr, ev)
                } else {
                    format!("padw push.{} mem_loadw emit.{} dropw", addr, ev)
                }
            }
            A::LocStore { i, v } => format!("push.{} loc_store.{}", v, i),
            A::LocLoad { i, ev } => format!("loc_load.{} emit.{} drop", i, ev),
            A::LocStoreW { i, w } => format!("{} loc_storew.{} dropw", word_push(w), i),
            A::LocLoadW { i, ev } => format!("padw loc_loadw.{} emit.{} dropw", i, ev),
            A::Stream { addr, ev } => format!("push.{} padw padw padw mem_stream emit.{} dropw dropw dropw drop", addr, ev),
            A::Pipe { addr, ev, .. } => format!("push.{} padw padw padw adv_pipe emit.{} dropw dropw dropw drop", addr, ev),
            A::Invoke { how, proc_, deep, ev } => {
                let mut s = String::new();
                for d in deep {
                    s.push_str(&format!("push.{} ", d));
                }
                let name = format!("q{}", proc_);
                match how.as_str() {
                    "dynexec" | "dyncall" => s.push_str(&format!("procref.{} {} dropw ", name, how)),
                    h => s.push_str(&format!("{}.{} ", h, name)),
                }
                // observation after the return needs a real operation in the same span
                s.push_str(&format!("push.0 emit.{} drop", ev));
                for _ in deep {
                    s.push_str(" drop");
                }
                s
            }
            A::Obs { ev } => format!("sdepth emit.{} drop", ev),
            A::Caller { ev } => format!("padw caller emit.{} dropw", ev),
            A::BadAddr { kind } => match kind {
                0 => "push.4294967296 mem_load drop".to_string(),
                1 => "push.5 push.4294967296 mem_store".to_string(),
                2 => "padw push.18446744069414584320 mem_loadw dropw".to_string(),
                3 => "push.1.2.3.4 push.4294967297 mem_storew dropw".to_string(),
                4 => "push.4294967296 padw padw padw mem_stream dropw dropw dropw drop".to_string(),
                // the second word of a stream / pipe starting at 2^32-1 lies at 2^32
                5 => "push.4294967295 padw padw padw mem_stream dropw dropw dropw drop".to_string(),
                _ => "push.4294967295 padw padw padw adv_pipe dropw dropw dropw drop".to_string(),
            },
            A::ExtraPush => "push.77".to_string(),
        };
        out.push_str(&pad);
        out.push_str(&line);
        out.push('\n');
    }
    let _ = procs;
}

fn sources(procs: &[ProcC], main: &[A]) -> (String, Option<String>) {
    let mut k = String::new();
    let mut s = String::new();
    for (i, p) in procs.iter().enumerate() {
        // decorators are not part of a MAST root: two procedures that differ only in their emit ids
        // would collapse into one code block, so every body starts with a distinguishing operation
        let mut b = format!("    push.{} drop\n", 1000 + i);
        render(&p.body, procs, 1, &mut b);
        let l = if p.locals > 0 { format!(".{}", p.locals) } else { String::new() };
        if p.kind == "kernel" {
            k.push_str(&format!("export.q{}{}\n{}end\n\n", i, l, b));
        } else {
            s.push_str(&format!("proc.q{}{}\n{}end\n\n", i, l, b));
        }
    }
    s.push_str("begin\n");
    render(main, procs, 1, &mut s);
    s.push_str("    push.0 drop\nend\n");
    (s, if k.is_empty() { None } else { Some(k) })
}

// ------------------------------------------------------------------------------------------------
// reference interpreter

#[derive(Clone, Debug, PartialEq)]
struct Expect {
    ev: u32,
    /// top of the stack first; None = not compared (procedure hash pushed by procref)
    stack: Vec<Option<u64>>,
    /// exact depth expected (16 + overflow visible in this context)
    depth: usize,
    /// elements of calling contexts hidden from this context (the host API may list them too)
    hidden: usize,
    fmp: u64,
    ctx_key: u64,
    in_root_ctx: bool,
    /// expected memory of the pool addresses in the current context
    mem: Vec<(u64, [u64; 4])>,
}

struct Model<'a> {
    procs: &'a [ProcC],
    pool: &'a [u64],
    /// visible stack of the current context, top last
    stack: Vec<Option<u64>>,
    hidden: Vec<Vec<Option<u64>>>,
    mem: BTreeMap<(u64, u64), [u64; 4]>,
    ctx: u64,
    next_ctx: u64,
    fmp: u64,
    frame_base: Vec<u64>,
    out: Vec<Expect>,
    /// Some(reason) once the model predicts that execution must have failed
    must_fail: Option<String>,
    advice: Vec<u64>,
    budget: u64,
}

impl<'a> Model<'a> {
    fn top(&self, n: usize) -> Vec<Option<u64>> {
        let mut v: Vec<Option<u64>> = self.stack.iter().rev().cloned().collect();
        while v.len() < 16 {
            v.push(Some(0));
        }
        let _ = n;
        v
    }
    fn observe(&mut self, ev: u32) {
        let st = self.top(16);
        let depth = self.stack.len().max(16);
        let mem = self.pool.iter().filter(|a| **a < (1 << 32)).map(|a| (*a, self.mem.get(&(self.ctx, *a)).cloned().unwrap_or([0; 4]))).collect();
        let hidden = self.hidden.iter().map(|h| h.len()).sum();
        self.out.push(Expect { ev, stack: st, depth, hidden, fmp: self.fmp, ctx_key: self.ctx, in_root_ctx: self.ctx == 0, mem });
    }
    fn push(&mut self, v: u64) {
        self.stack.push(Some(v));
    }
    fn pop(&mut self) {
        self.stack.pop();
        if self.stack.len() < 16 {
            // at the 16-element floor a zero is shifted in at the bottom
            self.stack.insert(0, Some(0));
        }
    }
    /// locals are plain memory of the current context just below the frame's fmp: local i of a frame
    /// entered at fmp value `base` lives at address base + i + 1 (not zero-initialised per frame)
    fn loc_addr(&self, frame: usize, i: u32) -> u64 {
        self.frame_base[frame] + i as u64 + 1
    }
    fn rd(&self, addr: u64) -> [u64; 4] {
        self.mem.get(&(self.ctx, addr)).cloned().unwrap_or([0; 4])
    }
    fn run(&mut self, body: &[A], frame: usize) {
        for a in body {
            if self.must_fail.is_some() {
                return;
            }
            if self.budget == 0 {
                return;
            }
            self.budget -= 1;
            match a {
                A::StoreEl { addr, v, .. } => {
                    let mut w = self.rd(*addr);
                    w[0] = *v;
                    self.mem.insert((self.ctx, *addr), w);
                }
                A::StoreW { addr, w, .. } => {
                    self.mem.insert((self.ctx, *addr), *w);
                }
                A::LoadEl { addr, ev, .. } => {
                    let w = self.rd(*addr);
                    self.push(w[0]);
                    self.observe(*ev);
                    self.pop();
                }
                A::LoadW { addr, ev, .. } => {
                    let w = self.rd(*addr);
                    for x in w {
                        self.push(x);
                    }
                    self.observe(*ev);
                    for _ in 0..4 {
                        self.pop();
                    }
                }
                A::LocStore { i, v } => {
                    let addr = self.loc_addr(frame, *i);
                    let mut w = self.rd(addr);
                    w[0] = *v;
                    self.mem.insert((self.ctx, addr), w);
                }
                A::LocLoad { i, ev } => {
                    let w = self.rd(self.loc_addr(frame, *i));
                    self.push(w[0]);
                    self.observe(*ev);
                    self.pop();
                }
                A::LocStoreW { i, w } => {
                    let addr = self.loc_addr(frame, *i);
                    self.mem.insert((self.ctx, addr), *w);
                }
                A::LocLoadW { i, ev } => {
                    let w = self.rd(self.loc_addr(frame, *i));
                    for x in w {
                        self.push(x);
                    }
                    self.observe(*ev);
                    for _ in 0..4 {
                        self.pop();
                    }
                }
                A::Stream { addr, ev } => {
                    let w0 = self.rd(*addr);
                    let w1 = self.rd(*addr + 1);
                    // [addr+2, 0,0,0,0, w0.., w1..] with w1[3] on top
                    self.push(*addr + 2);
                    for _ in 0..4 {
                        self.push(0);
                    }
                    for x in w0 {
                        self.push(x);
                    }
                    for x in w1 {
                        self.push(x);
                    }
                    self.observe(*ev);
                    for _ in 0..13 {
                        self.pop();
                    }
                }
                A::Pipe { addr, w, ev } => {
                    self.advice.extend(w.iter());
                    let w0 = [w[0], w[1], w[2], w[3]];
                    let w1 = [w[4], w[5], w[6], w[7]];
                    self.mem.insert((self.ctx, *addr), w0);
                    self.mem.insert((self.ctx, *addr + 1), w1);
                    self.push(*addr + 2);
                    for _ in 0..4 {
                        self.push(0);
                    }
                    for x in w0 {
                        self.push(x);
                    }
                    for x in w1 {
                        self.push(x);
                    }
                    self.observe(*ev);
                    for _ in 0..13 {
                        self.pop();
                    }
                }
                A::Obs { ev } => {
                    let d = self.stack.len().max(16) as u64;
                    self.push(d);
                    self.observe(*ev);
                    self.pop();
                }
                A::Caller { ev } => {
                    // the hash itself is compared separately (consistency with procref); here: wildcard
                    for _ in 0..4 {
                        self.stack.push(None);
                    }
                    self.observe(*ev);
                    for _ in 0..4 {
                        self.pop();
                    }
                }
                A::Invoke { how, proc_, deep, ev } => {
                    for d in deep {
                        self.push(*d);
                    }
                    let p = &self.procs[*proc_];
                    let is_dyn = how.starts_with("dyn");
                    if is_dyn {
                        for _ in 0..4 {
                            self.stack.push(None);
                        }
                    }
                    let new_ctx = matches!(how.as_str(), "call" | "dyncall" | "syscall");
                    let (saved_ctx, saved_fmp) = (self.ctx, self.fmp);
                    if new_ctx {
                        // the callee sees only the top 16 elements
                        while self.stack.len() < 16 {
                            self.stack.insert(0, Some(0));
                        }
                        let split = self.stack.len() - 16;
                        let vis = self.stack.split_off(split);
                        let hid = std::mem::replace(&mut self.stack, vis);
                        self.hidden.push(hid);
                        if how == "syscall" {
                            self.ctx = 0;
                            self.fmp = SYSCALL_FMP_MIN;
                        } else {
                            self.ctx = self.next_ctx;
                            self.next_ctx += 1;
                            self.fmp = FMP_MIN;
                        }
                    }
                    // the callee's frame
                    self.frame_base.push(self.fmp);
                    let f = self.frame_base.len() - 1;
                    self.fmp += p.locals as u64;
                    let body = p.body.clone();
                    self.run(&body, f);
                    self.fmp -= p.locals as u64;
                    self.frame_base.pop();
                    if self.must_fail.is_some() {
                        return;
                    }
                    if new_ctx {
                        if self.stack.len() != 16 {
                            self.must_fail = Some(format!("{} to q{} returns with stack depth {}", how, proc_, self.stack.len()));
                            return;
                        }
                        let vis = std::mem::take(&mut self.stack);
                        let mut hid = self.hidden.pop().unwrap_or_default();
                        hid.extend(vis);
                        self.stack = hid;
                        self.ctx = saved_ctx;
                        self.fmp = saved_fmp;
                    }
                    if is_dyn {
                        for _ in 0..4 {
                            self.pop();
                        }
                    }
                    self.push(0);
                    self.observe(*ev);
                    self.pop();
                    for _ in deep {
                        self.pop();
                    }
                }
                A::BadAddr { kind } => {
                    if *kind == 6 {
                        self.advice.extend([1, 2, 3, 4, 5, 6, 7, 8]);
                    }
                    self.must_fail = Some(format!("memory access beyond 2^32 (kind {kind})"));
                    return;
                }
                A::ExtraPush => self.push(77),
            }
        }
    }
}

impl Prop for C07 {
    fn id(&self) -> &'static str {
        "C07"
    }
    fn level(&self) -> &'static str {
        "exploration"
    }
    fn runs(&self, tier: Tier) -> u64 {
        match tier {
            Tier::Quick => 5000,
            Tier::Thorough => 500_000,
        }
    }
    fn rule(&self) -> &'static str {
        "one run = a generated call tree (exec, call, syscall, dyncall, dynexec; 0-3 locals; kernel procedures using caller) whose procedures perform element/word/stream/pipe/local loads and stores over a pool of 4-6 addresses shared by every context (incl. 2^32-1), with observation events after every load and after every return, at which the simulated host also probes the pool in the current context. A reference interpreter with per-context memory maps, per-frame locals, a concrete stack that is cut to 16 at call boundaries, and the fmp rule predicts every event: stack snapshot, depth, fmp, context identity (fresh per call, root for syscall, restored on return), memory probes. The initial stack holds 0-30 input values (overflow rows not created by an instruction), partly dropped before the first invocation; a quarter of the runs compile program and kernel from their serialised ASTs. Fault scenarios: callee returning with depth != 16, addresses >= 2^32. Non-trivial = execution reached at least 3 observation events; distinct = digest of the scenario."
    }
    fn generate(&self, rng: &mut Rng, _tier: Tier, _index: u64) -> Value {
        let mut pool: Vec<u64> = vec![0, 1, 2, (1 << 32) - 1];
        pool.push(rng.below(1 << 32));
        if rng.chance(1, 2) {
            pool.push((1 << 32) - 3);
        }
        let mut g = G { rng, pool: pool.clone(), ev: 0 };
        let nk = if g.rng.chance(1, 2) { g.rng.range(1, 2) as usize } else { 0 };
        let np = g.rng.range(0, 4) as usize;
        let mut procs: Vec<ProcC> = vec![];
        for _ in 0..nk {
            let locals = if g.rng.chance(1, 2) { g.rng.range(1, 3) as u32 } else { 0 };
            let len = g.rng.range(1, 6) as usize;
            let body = g.body(locals, "kernel", &procs, len);
            procs.push(ProcC { locals, kind: "kernel".into(), body });
        }
        for _ in 0..np {
            let kind = if g.rng.chance(1, 2) { "callable" } else { "plain" };
            let locals = if g.rng.chance(1, 2) { g.rng.range(1, 3) as u32 } else { 0 };
            let len = g.rng.range(1, 7) as usize;
            let body = g.body(locals, kind, &procs, len);
            procs.push(ProcC { locals, kind: kind.into(), body });
        }
        let len = g.rng.range(2, 10) as usize;
        let mut main = g.body(0, "main", &procs, len);
        // fault scenarios
        let fault = g.rng.below(12);
        if fault == 0 {
            let at = g.rng.usize(main.len() + 1);
            main.insert(at, A::BadAddr { kind: g.rng.below(7) as u32 });
        } else if fault == 1 {
            // a callable procedure that returns with one element too many
            if let Some(j) = procs.iter().position(|p| p.kind == "callable") {
                procs[j].body.push(A::ExtraPush);
            }
        }
        // initial stack deeper than 16 (overflow rows that were not created by an instruction), partly
        // consumed before the first invocation
        let n_in = *g.rng.pick(&[0usize, 0, 0, 5, 16, 17, 18, 20, 30]);
        let stack_inputs: Vec<String> = (0..n_in).map(|_| g.val().to_string()).collect();
        let init_drops = if n_in > 16 { g.rng.below((n_in - 16 + 2) as u64) } else { 0 };
        let via_ast_bytes = g.rng.chance(1, 4);
        json!({
            "stack_inputs": stack_inputs,
            "init_drops": init_drops,
            "via_ast_bytes": via_ast_bytes,
            "pool": pool.iter().map(|x| x.to_string()).collect::<Vec<_>>(),
            "procs": procs.iter().map(|p| json!({"locals": p.locals, "kind": p.kind, "body": p.body.iter().map(a_to_json).collect::<Vec<_>>()})).collect::<Vec<_>>(),
            "main": main.iter().map(a_to_json).collect::<Vec<_>>(),
        })
    }

    fn execute(&self, sc: &Value) -> RunOut {
        let mut out = RunOut::default();
        out.digest = digest_value(sc);
        let pool: Vec<u64> = vm::u64s(&sc["pool"]);
        let procs: Vec<ProcC> = sc["procs"]
            .as_array()
            .cloned()
            .unwrap_or_default()
            .iter()
            .map(|p| ProcC { locals: p["locals"].as_u64().unwrap_or(0) as u32, kind: p["kind"].as_str().unwrap_or("plain").into(), body: p["body"].as_array().cloned().unwrap_or_default().iter().map(a_from_json).collect() })
            .collect();
        let main: Vec<A> = sc["main"].as_array().cloned().unwrap_or_default().iter().map(a_from_json).collect();
        // reference model
        let inputs: Vec<u64> = vm::u64s(&sc["stack_inputs"]);
        let init_drops = sc["init_drops"].as_u64().unwrap_or(0) as usize;
        let mut stack0: Vec<Option<u64>> = inputs.iter().rev().map(|v| Some(*v)).collect();
        while stack0.len() < 16 {
            stack0.insert(0, Some(0));
        }
        let mut m = Model { procs: &procs, pool: &pool, stack: stack0, hidden: vec![], mem: BTreeMap::new(), ctx: 0, next_ctx: 1, fmp: FMP_MIN, frame_base: vec![FMP_MIN], out: vec![], must_fail: None, advice: vec![], budget: 20_000 };
        for _ in 0..init_drops {
            m.pop();
        }
        m.run(&main, 0);
        let expected = m.out.clone();
        let must_fail = m.must_fail.clone();
        let (src, kernel) = sources(&procs, &main);
        let src = if init_drops > 0 { src.replacen("begin\n", &format!("begin\n    {}\n", vec!["drop"; init_drops].join(" ")), 1) } else { src };
        let spec = ProgSpec { source: src.clone(), kernel: kernel.clone(), advice_stack: m.advice.clone(), stack_inputs: inputs.clone(), ..Default::default() };
        let assembled = if sc["via_ast_bytes"].as_bool().unwrap_or(false) {
            // the same program and kernel compiled from their serialised ASTs (as a library user would)
            out.count("probe:compiled-from-serialised-ast");
            match catch(|| -> Result<processor::Program, String> {
                use assembly::ast::{AstSerdeOptions, ModuleAst, ProgramAst};
                let mut a = assembly::Assembler::default();
                if let Some(k) = &kernel {
                    let ast = ModuleAst::parse(k).map_err(|e| format!("{e}"))?;
                    let back = ModuleAst::from_bytes(&ast.to_bytes(AstSerdeOptions::new(true))).map_err(|e| format!("{e}"))?;
                    a = a.with_kernel_module(back).map_err(|e| format!("kernel: {e}"))?;
                }
                let ast = ProgramAst::parse(&src).map_err(|e| format!("{e}"))?;
                let back = ProgramAst::from_bytes(&ast.to_bytes(AstSerdeOptions::new(true))).map_err(|e| format!("{e}"))?;
                a.compile_ast(&back).map_err(|e| format!("{e}"))
            }) {
                Ok(r) => r,
                Err((loc, msg)) => Err(format!("PANIC {loc}: {msg}")),
            }
        } else {
            spec.assemble(false)
        };
        let program = match assembled {
            Ok(p) => p,
            Err(e) => {
                if e.starts_with("PANIC") {
                    out.violate(format!("C07/assembler-panic/{}", msg_key(&e, 50)), e);
                } else {
                    out.count(&format!("outcome:assemble-failed|{}", msg_key(&e, 30)));
                    out.sample = Some(json!({"assemble_error": e, "source": src, "kernel": kernel}));
                }
                return out;
            }
        };
        let probe: Vec<u32> = pool.iter().filter(|a| **a < (1 << 32)).map(|a| *a as u32).collect();
        let mut host = spec.host(vec![], HostCfg { snapshot_stack: true, probe_addrs: probe, ..Default::default() });
        let r = vm::run(&program, spec.stack(), &mut host, vm::options(Some(1 << 21), 64, false));
        out.evals = 1;
        let events: Vec<&Event> = host.log.iter().filter(|e| e.kind == EV_EVENT).collect();
        let mut obs = Fnv::new();
        obs.str(&r.class()).u64(host.log_digest());
        if let Outcome::Ok(t) = &r {
            out.cycles = t.trace_len_summary().main_trace_len() as u64;
        }
        // context identity bookkeeping: model key -> observed id
        let mut ctx_map: BTreeMap<u64, u32> = BTreeMap::new();
        let mut n_checked = 0;
        for (k, e) in events.iter().enumerate() {
            let x = match expected.get(k) {
                Some(x) => x,
                None => {
                    out.violate("C07/history/extra-event", format!("event #{k} (id {}) was not predicted: the model expects {} events", e.id, expected.len()));
                    break;
                }
            };
            if x.ev != e.id {
                out.violate("C07/history/event-order", format!("event #{k}: VM emitted id {}, model expects id {}", e.id, x.ev));
                break;
            }
            n_checked += 1;
            // stack
            if e.stack.len() == x.depth + x.hidden && x.hidden > 0 {
                // ProcessState::get_stack_state also lists overflow rows of the calling contexts
                // (DESIGN F25b); what the callee program itself can see is judged through sdepth
                out.count("probe:host-snapshot-lists-hidden-caller-rows");
            }
            if e.stack.len() != x.depth && e.stack.len() != x.depth + x.hidden {
                out.violate("C07/stack/depth", format!("event {} : stack depth {} but the context should see {} elements", e.id, e.stack.len(), x.depth));
            }
            for (i, want) in x.stack.iter().enumerate() {
                if let Some(w) = want {
                    let got = e.stack.get(i).copied().unwrap_or(0);
                    if got != *w {
                        let what = if i < 16 { "visible" } else { "deep" };
                        out.violate(format!("C07/stack/{}-element-differs", what), format!("event {}: stack position {} holds {}, reference model {} (ctx key {}, depth {})", e.id, i, got, w, x.ctx_key, x.depth));
                        break;
                    }
                }
            }
            if e.fmp != x.fmp {
                out.violate("C07/fmp", format!("event {}: fmp {} but the model expects {}", e.id, e.fmp, x.fmp));
            }
            // context identity
            if x.in_root_ctx != (e.ctx == 0) {
                out.violate("C07/ctx/root-mismatch", format!("event {}: ctx {} but the model says root context = {}", e.id, e.ctx, x.in_root_ctx));
            }
            match ctx_map.get(&x.ctx_key) {
                Some(c) if *c != e.ctx => out.violate("C07/ctx/not-restored", format!("event {}: context key {} was observed as ctx {} before, now {}", e.id, x.ctx_key, c, e.ctx)),
                Some(_) => {}
                None => {
                    if ctx_map.values().any(|c| *c == e.ctx) {
                        out.violate("C07/ctx/not-fresh", format!("event {}: a new call context reuses ctx id {}", e.id, e.ctx));
                    }
                    ctx_map.insert(x.ctx_key, e.ctx);
                }
            }
            // memory probes of the current context
            for (c, a, wd) in &e.mem {
                if *c != e.ctx {
                    continue;
                }
                let want = x.mem.iter().find(|(aa, _)| *aa == *a as u64).map(|(_, w)| *w).unwrap_or([0; 4]);
                let got = wd.unwrap_or([0; 4]);
                if got != want {
                    out.violate("C07/memory/probe-differs", format!("event {}: memory of ctx {} at address {} is {:?}, reference model {:?}", e.id, e.ctx, a, got, want));
                    break;
                }
            }
        }
        if ctx_map.len() >= 3 {
            out.count("probe:three-or-more-contexts");
        }
        // outcome
        match (&r, &must_fail) {
            (Outcome::Ok(_), None) => {
                if events.len() != expected.len() && out.violations.is_empty() {
                    out.violate("C07/history/missing-events", format!("{} events observed, {} predicted", events.len(), expected.len()));
                }
            }
            (Outcome::Ok(_), Some(why)) => out.violate("C07/should-fail/succeeded", format!("execution must fail ({why}) but succeeded")),
            (Outcome::Err(e), Some(_)) => {
                out.count(&format!("reach:must-fail|{}", vm::err_name(e)));
                if events.len() != expected.len() && out.violations.is_empty() {
                    out.violate("C07/should-fail/failed-at-other-point", format!("{} events before the failure, the model predicts {}", events.len(), expected.len()));
                }
            }
            (Outcome::Err(e), None) => out.violate(format!("C07/unexpected-error/{}", vm::err_name(e)), format!("{e} after {} of {} predicted events", events.len(), expected.len())),
            (Outcome::Panic(l, m), why) => out.violate(format!("C07/panic/{}", l), format!("{m} (model: {:?})", why)),
        }
        out.nontrivial = n_checked >= 3;
        out.obs = obs.finish();
        out.sample = Some(json!({"source": src, "kernel": kernel, "events": events.len(), "predicted": expected.len(), "must_fail": must_fail}));
        out
    }
    fn shrink_arrays(&self) -> Vec<&'static str> {
        vec!["/main", "/procs/0/body", "/procs/1/body", "/procs/2/body", "/procs/3/body", "/procs/4/body", "/procs/5/body"]
    }
    fn components_real(&self) -> Vec<&'static str> {
        vec!["assembler (call/syscall/dyn/procref/locals)", "processor: memory chiplet, system (ctx, fmp), stack + overflow table at call boundaries, kernel ROM access"]
    }
    fn components_simulated(&self) -> Vec<&'static str> {
        vec!["reference interpreter (per-context memory, per-frame locals, concrete stack)", "SimHost observation events with memory probes", "advice stack for adv_pipe"]
    }
    fn assumptions(&self) -> Vec<&'static str> {
        vec!["procedure hashes pushed by procref / caller are not predicted (wildcards)", "locals are modelled as per-frame storage; absolute addresses in the fmp regions are not used by the generator"]
    }
}
