//! Building assembler-side artefacts (modules, libraries) from scenario JSON.

use assembly::ast::ModuleAst;
use assembly::{LibraryNamespace, LibraryPath, MaslLibrary, Module, Version};
use serde_json::Value;

pub fn build_lib(v: &Value, with_locations: bool) -> Result<MaslLibrary, String> {
    let ns = LibraryNamespace::new(v["namespace"].as_str().unwrap_or("lib")).map_err(|e| format!("{e}"))?;
    let ver = Version {
        major: v["version"][0].as_u64().unwrap_or(0) as u16,
        minor: v["version"][1].as_u64().unwrap_or(1) as u16,
        patch: v["version"][2].as_u64().unwrap_or(0) as u16,
    };
    let mut modules = vec![];
    for m in v["modules"].as_array().cloned().unwrap_or_default() {
        let path = LibraryPath::new(m["path"].as_str().unwrap_or("")).map_err(|e| format!("{e}"))?;
        let ast = ModuleAst::parse(m["source"].as_str().unwrap_or("")).map_err(|e| format!("module {}: {e}", m["path"]))?;
        modules.push(Module::new(path, ast));
    }
    let mut deps = vec![];
    for d in v["deps"].as_array().cloned().unwrap_or_default() {
        deps.push(LibraryNamespace::new(d.as_str().unwrap_or("")).map_err(|e| format!("{e}"))?);
    }
    MaslLibrary::new(ns, ver, with_locations, modules, deps).map_err(|e| format!("{e}"))
}

pub fn build_libs(v: &Value, with_locations: bool) -> Result<Vec<MaslLibrary>, String> {
    v.as_array().cloned().unwrap_or_default().iter().map(|l| build_lib(l, with_locations)).collect()
}
