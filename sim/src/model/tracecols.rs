//! Readers for the stored execution trace (the recorded history), independent of the repo's own
//! MainTrace accessors.

use miden_air::trace::{
    chiplets::{MEMORY_ADDR_COL_IDX, MEMORY_CLK_COL_IDX, MEMORY_CTX_COL_IDX, MEMORY_SELECTORS_COL_IDX, MEMORY_V_COL_RANGE},
    stack::{B0_COL_IDX, B1_COL_IDX},
    CHIPLETS_OFFSET, CLK_COL_IDX, CTX_COL_IDX, FMP_COL_IDX, STACK_TRACE_OFFSET,
};
use processor::ColMatrix;
use vm_core::{Felt, StarkField};

#[derive(Clone, Debug, PartialEq, Eq)]
pub struct MemRow {
    pub ctx: u64,
    pub addr: u64,
    pub clk: u64,
    pub v: [u64; 4],
    pub is_read: bool,
}

pub fn g(main: &ColMatrix<Felt>, col: usize, row: usize) -> u64 {
    main.get(col, row).as_int()
}

/// rows of the memory chiplet (selectors 1,1,0), in table order
pub fn memory_rows(main: &ColMatrix<Felt>) -> Vec<MemRow> {
    let mut out = vec![];
    // the last row holds random values
    for r in 0..main.num_rows() - 1 {
        if g(main, CHIPLETS_OFFSET, r) == 1 && g(main, CHIPLETS_OFFSET + 1, r) == 1 && g(main, CHIPLETS_OFFSET + 2, r) == 0 {
            let mut v = [0u64; 4];
            for (i, c) in MEMORY_V_COL_RANGE.enumerate() {
                v[i] = g(main, c, r);
            }
            out.push(MemRow { ctx: g(main, MEMORY_CTX_COL_IDX, r), addr: g(main, MEMORY_ADDR_COL_IDX, r), clk: g(main, MEMORY_CLK_COL_IDX, r), v, is_read: g(main, MEMORY_SELECTORS_COL_IDX, r) == 1 });
        }
    }
    out
}

pub fn stack_top(main: &ColMatrix<Felt>, row: usize) -> [u64; 16] {
    let mut s = [0u64; 16];
    for (i, x) in s.iter_mut().enumerate() {
        *x = g(main, STACK_TRACE_OFFSET + i, row);
    }
    s
}
pub fn depth(main: &ColMatrix<Felt>, row: usize) -> u64 {
    g(main, STACK_TRACE_OFFSET + B0_COL_IDX, row)
}
pub fn b1(main: &ColMatrix<Felt>, row: usize) -> u64 {
    g(main, STACK_TRACE_OFFSET + B1_COL_IDX, row)
}
pub fn clk(main: &ColMatrix<Felt>, row: usize) -> u64 {
    g(main, CLK_COL_IDX, row)
}
pub fn fmp(main: &ColMatrix<Felt>, row: usize) -> u64 {
    g(main, FMP_COL_IDX, row)
}
pub fn ctx(main: &ColMatrix<Felt>, row: usize) -> u64 {
    g(main, CTX_COL_IDX, row)
}

/// Overflow-table content (most recently pushed first) visible at every row, reconstructed by
/// replaying the trace's own shifts: depth column deltas and the element leaving position 15;
/// hidden at CALL/SYSCALL and restored at the END of the call block. Second component: number of
/// hidden (caller) overflow levels at that row.
pub fn overflow_by_row(main: &ColMatrix<Felt>, rows: usize) -> Vec<(Vec<u64>, usize)> {
    use miden_air::trace::decoder::{IS_CALL_FLAG_COL_IDX, IS_SYSCALL_FLAG_COL_IDX};
    use miden_air::trace::DECODER_TRACE_OFFSET;
    use vm_core::Operation;
    let mut out = Vec::with_capacity(rows + 1);
    let mut cur: Vec<u64> = vec![];
    let mut saved: Vec<Vec<u64>> = vec![];
    // initial overflow: inputs deeper than 16 are not visible in the main trace; callers only use
    // this for programs whose initial depth is 16, or compare relative content
    out.push((cur.iter().rev().cloned().collect(), 0));
    for r in 0..rows {
        let mut opc = 0u8;
        for i in 0..7 {
            opc |= ((g(main, DECODER_TRACE_OFFSET + 1 + i, r) & 1) as u8) << i;
        }
        if opc == Operation::Call.op_code() || opc == Operation::SysCall.op_code() {
            saved.push(std::mem::take(&mut cur));
        } else if opc == Operation::End.op_code() && (g(main, DECODER_TRACE_OFFSET + IS_CALL_FLAG_COL_IDX, r) == 1 || g(main, DECODER_TRACE_OFFSET + IS_SYSCALL_FLAG_COL_IDX, r) == 1) {
            cur = saved.pop().unwrap_or_default();
        } else {
            let d0 = depth(main, r);
            let d1 = depth(main, r + 1);
            if d1 == d0 + 1 {
                cur.push(g(main, STACK_TRACE_OFFSET + 15, r));
            } else if d1 + 1 == d0 {
                cur.pop();
            }
        }
        out.push((cur.iter().rev().cloned().collect(), saved.len()));
    }
    out
}
