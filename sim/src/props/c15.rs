//! C15 — the cycle limit is enforced exactly (the cycle budget is the VM's only timer: seam S4).

use crate::framework::*;
use crate::gen::prog::{generate, GenCfg};
use crate::rng::{Fnv, Rng};
use crate::world::host::{log_digest, HostCfg};
use crate::world::vm::{self, Outcome, ProgSpec};
use processor::{ExecutionError, ExecutionOptions};
use serde_json::{json, Value};

pub struct C15;

fn hostcfg() -> HostCfg {
    HostCfg { snapshot_stack: true, log_requests: true, ..Default::default() }
}

const NONTERM: &[&str] = &[
    "begin push.1 while.true push.1 end end",
    "begin push.1 while.true emit.1 push.1 emit.2 end end",
    "proc.f push.1 while.true push.1 end end begin exec.f end",
    "proc.f push.1 while.true push.1 end end begin call.f end",
    "begin push.1 while.true push.1 while.true push.0 end push.1 end end",
    "begin push.1 while.true push.1 if.true push.1 else push.1 end end end",
    "proc.g push.0 drop end begin push.1 while.true call.g push.1 end end",
    "begin push.1 while.true repeat.20 push.3 drop end mem_load.1 drop push.1 end end",
    "begin push.1 while.true hperm push.1 end end",
];
const NONTERM_K: &str = "export.kf push.1 while.true emit.7 push.1 end end";

impl Prop for C15 {
    fn id(&self) -> &'static str {
        "C15"
    }
    fn level(&self) -> &'static str {
        "fault_enumeration"
    }
    fn runs(&self, tier: Tier) -> u64 {
        match tier {
            Tier::Quick => 1500,
            Tier::Thorough => 120_000,
        }
    }
    fn run_timeout_s(&self) -> u64 {
        90
    }
    fn worker_mem_limit_gb(&self) -> Option<u64> {
        Some(12)
    }
    fn rule(&self) -> &'static str {
        "one run (limits reach the VM alternately through ExecutionOptions::new and through the with_tracing builder) = one generated program (or non-terminating program, or option-validation sweep) whose exact cycle need n is measured with an unlimited timer; the timer is then fired at every m in {max(64,n-3)..n+3} and at sampled m in [64,n); one evaluation = one (program, m) execution. Non-trivial = the unlimited execution succeeded (or the program is non-terminating by construction) and at least one instant on each side of n that exists was exercised; distinct = digest of (source, inputs, instants)."
    }
    fn generate(&self, rng: &mut Rng, tier: Tier, _index: u64) -> Value {
        let k = rng.below(20);
        if k == 0 {
            // option validation sweep around the minimum and around each other
            let mut pairs = vec![];
            for _ in 0..40 {
                let max = match rng.below(4) {
                    0 => rng.range(0, 130),
                    1 => rng.range(60, 68),
                    2 => rng.below(1 << 20),
                    _ => *rng.pick(&[0u64, 1, 63, 64, 65, 127, 128, 129, u32::MAX as u64]),
                };
                let exp = match rng.below(4) {
                    0 => max.saturating_sub(rng.below(3)),
                    1 => (max + rng.below(3)).min(u32::MAX as u64),
                    2 => rng.below(200),
                    _ => rng.below(1 << 20),
                };
                // expected_cycles above 2^31 makes `next_power_of_two` overflow inside the constructor
                // (a panic on a non-refusable set; outside the property's statement, see DESIGN F22)
                let exp = exp.min(1 << 31);
                pairs.push(json!([max, exp, rng.chance(1, 2)]));
            }
            return json!({"kind": "options", "pairs": pairs});
        }
        if k <= 2 {
            let mut limits: Vec<u64> = vec![64, 65, rng.range(64, 2000), 1000, 1 << 12];
            if tier == Tier::Thorough || rng.chance(1, 4) {
                limits.push(1 << 16);
            }
            if tier == Tier::Thorough && rng.chance(1, 8) {
                limits.push(1 << 20);
            }
            let i = rng.usize(NONTERM.len() + 1);
            let (src, kernel) = if i == NONTERM.len() { ("begin syscall.kf end".to_string(), Some(NONTERM_K.to_string())) } else { (NONTERM[i].to_string(), None) };
            return json!({"kind": "nonterm", "prog": {"source": src, "kernel": kernel, "stack_inputs": [], "advice_stack": []}, "limits": limits});
        }
        let mut cfg = GenCfg::swarm(rng);
        cfg.long_loops = rng.chance(2, 3);
        cfg.max_nest = cfg.max_nest.max(1);
        cfg.w_deco = cfg.w_deco.max(2);
        cfg.w_crypto = cfg.w_crypto.min(3);
        let p = generate(rng, cfg);
        let prog = p.to_json();
        // dry run (fault free) to place the timer instants inside the execution
        let spec = ProgSpec::from_json(&prog);
        let mut n: Option<u64> = None;
        if let Ok(program) = spec.assemble(false) {
            let mut host = spec.host(vec![], HostCfg::default());
            if let Outcome::Ok(t) = vm::run(&program, spec.stack(), &mut host, ExecutionOptions::default()) {
                n = Some(t.trace_len_summary().main_trace_len() as u64);
            }
        }
        let mut instants: Vec<u64> = vec![];
        if let Some(n) = n {
            let lo = n.saturating_sub(3).max(64);
            for m in lo..=n + 3 {
                instants.push(m);
            }
            if n > 64 {
                let extra = if tier == Tier::Thorough { 24 } else { 8 };
                for _ in 0..extra {
                    instants.push(rng.range(64, n - 1));
                }
                instants.push(64);
            }
            instants.push(n.max(64) * 2 + rng.below(100));
        }
        instants.sort();
        instants.dedup();
        // expected_cycles: 0 / 64, or "max" = equal to the limit itself (its padded value then exceeds a
        // limit that is not a power of two)
        json!({"kind": "term", "prog": prog, "instants": instants, "expected_cycles": *rng.pick(&[0u64, 64, u64::MAX, u64::MAX])})
    }

    fn execute(&self, sc: &Value) -> RunOut {
        let mut out = RunOut::default();
        out.digest = digest_value(sc);
        let mut obs = Fnv::new();
        match sc["kind"].as_str().unwrap_or("") {
            "options" => {
                let mut n = 0;
                for p in sc["pairs"].as_array().cloned().unwrap_or_default() {
                    let max = p[0].as_u64().unwrap_or(0) as u32;
                    let exp = p[1].as_u64().unwrap_or(0) as u32;
                    let tr = p[2].as_bool().unwrap_or(false);
                    let r = catch(|| ExecutionOptions::new(Some(max), exp, tr));
                    n += 1;
                    match r {
                        Err((l, m)) => out.violate(format!("C15/options/panic/{}", l), format!("ExecutionOptions::new(Some({max}),{exp}) panicked: {m}")),
                        Ok(r) => {
                            let must_refuse = max < 64 || max < exp;
                            obs.u64(r.is_ok() as u64);
                            if must_refuse && r.is_ok() {
                                out.violate("C15/options/accepted-invalid", format!("ExecutionOptions::new(Some({max}), {exp}) accepted although max < 64 or max < expected"));
                            } else if !must_refuse && r.is_err() {
                                out.violate("C15/options/refused-valid", format!("ExecutionOptions::new(Some({max}), {exp}) refused: {:?}", r.err()));
                            } else if let Ok(o) = r {
                                if o.max_cycles() != max || o.enable_tracing() != tr {
                                    out.violate("C15/options/fields", format!("options do not carry the requested values: {:?}", o));
                                }
                                // the builder path keeps the limit
                                let (e0, o2) = (o.expected_cycles(), o.with_tracing());
                                if o2.max_cycles() != max || o2.expected_cycles() != e0 || !o2.enable_tracing() {
                                    out.violate("C15/options/builder-loses-limit", format!("ExecutionOptions::new(Some({max}), {exp}, _).with_tracing() = {:?}", o2));
                                }
                                // and so does the prover's option set
                                let po = miden_air::ProvingOptions::default().with_execution_options(o2);
                                if po.execution_options().max_cycles() != max {
                                    out.violate("C15/options/proving-options-lose-limit", format!("ProvingOptions::with_execution_options: {:?}", po.execution_options()));
                                }
                            }
                            out.count(if must_refuse { "reach:options|refuse" } else { "reach:options|accept" });
                        }
                    }
                }
                // None means unlimited
                if let Ok(Ok(o)) = catch(|| ExecutionOptions::new(None, 64, false)) {
                    if o.max_cycles() != u32::MAX {
                        out.violate("C15/options/none-not-unlimited", "max_cycles None is not u32::MAX");
                    }
                }
                out.evals = n;
                out.nontrivial = true;
                out.sample = Some(json!({"kind": "options", "pairs": sc["pairs"].as_array().map(|a| a.len())}));
            }
            "nonterm" => {
                let spec = ProgSpec::from_json(&sc["prog"]);
                let program = match spec.assemble(false) {
                    Ok(p) => p,
                    Err(e) => {
                        out.count("outcome:assemble-failed");
                        out.sample = Some(json!({"assemble_error": e}));
                        return out;
                    }
                };
                for m in sc["limits"].as_array().cloned().unwrap_or_default() {
                    let m = m.as_u64().unwrap_or(64) as u32;
                    let mut host = spec.host(vec![], hostcfg());
                    let opts = if m % 2 == 1 { vm::options(Some(m), 64, false).with_tracing() } else { vm::options(Some(m), 64, false) };
                    let r = vm::run(&program, spec.stack(), &mut host, opts);
                    out.evals += 1;
                    out.cycles += m as u64;
                    out.count("fault:timer-fired-nonterminating");
                    obs.str(&r.class()).u64(log_digest(&host.log));
                    match r {
                        Outcome::Err(ExecutionError::CycleLimitExceeded(x)) if x == m => {
                            if let Some(e) = host.log.iter().find(|e| e.clk > m) {
                                out.violate("C15/nonterm/executed-past-limit", format!("limit {m}: host saw an event at clk {}", e.clk));
                            }
                        }
                        other => out.violate(format!("C15/nonterm/{}", other.class()), format!("non-terminating program under limit {m} ended with {} instead of CycleLimitExceeded({m})", other.class())),
                    }
                }
                out.nontrivial = true;
                out.sample = Some(json!({"kind": "nonterm", "source": spec.source, "limits": sc["limits"]}));
            }
            _ => {
                let spec = ProgSpec::from_json(&sc["prog"]);
                let program = match spec.assemble(false) {
                    Ok(p) => p,
                    Err(e) => {
                        out.count("outcome:assemble-failed");
                        out.sample = Some(json!({"assemble_error": e, "source": spec.source}));
                        return out;
                    }
                };
                let mut host_a = spec.host(vec![], hostcfg());
                let a = vm::run(&program, spec.stack(), &mut host_a, ExecutionOptions::default().with_tracing());
                out.evals += 1;
                let ta = match a {
                    Outcome::Ok(t) => t,
                    other => {
                        out.count(&format!("outcome:unlimited-{}", other.class()));
                        return out;
                    }
                };
                let n = ta.trace_len_summary().main_trace_len() as u64;
                out.cycles += n;
                obs.u64(n).u64(log_digest(&host_a.log));
                // independent cross-check of n: last clk cell before the padding continues to count,
                // so use the host log: no event may have clk > n
                if let Some(e) = host_a.log.iter().find(|e| e.clk as u64 > n) {
                    out.violate("C15/need/event-after-end", format!("unlimited run: event at clk {} but need n={}", e.clk, n));
                }
                let outs_a = ta.stack_outputs().clone();
                let mut below = 0;
                let mut above = 0;
                for m in vm::u64s(&sc["instants"]) {
                    if !(64..=u32::MAX as u64).contains(&m) {
                        continue;
                    }
                    let exp = sc["expected_cycles"].as_u64().unwrap_or(64).min(m).min(1 << 30) as u32;
                    let mut host_b = spec.host(vec![], hostcfg());
                    // every other instant goes through the builder path of the options
                    // (tracing is on in every run of this scenario so that the host logs are comparable)
                    let opts = if m % 2 == 1 { vm::options(Some(m as u32), exp, false).with_tracing() } else { vm::options(Some(m as u32), exp, true) };
                    let b = vm::run(&program, spec.stack(), &mut host_b, opts);
                    out.evals += 1;
                    out.cycles += m.min(n);
                    obs.u64(m).str(&b.class()).u64(log_digest(&host_b.log));
                    let d = m as i64 - n as i64;
                    let key = if d < -3 { "early".to_string() } else if d > 3 { "late".to_string() } else { format!("n{:+}", d) };
                    out.count(&format!("fault:timer|{}", key));
                    if n <= m {
                        above += 1;
                        match b {
                            Outcome::Ok(tb) => {
                                if *tb.stack_outputs() != outs_a {
                                    out.violate("C15/ok/outputs-differ", format!("m={m} n={n}: outputs differ from the unlimited run"));
                                }
                                if host_b.log != host_a.log {
                                    out.violate("C15/ok/log-differs", format!("m={m} n={n}: host event log differs from the unlimited run"));
                                }
                            }
                            other => out.violate(format!("C15/should-succeed/{}", other.class()), format!("program needs n={n} cycles, limit m={m} >= n, but execution ended with {}", other.class())),
                        }
                    } else {
                        below += 1;
                        match b {
                            Outcome::Err(ExecutionError::CycleLimitExceeded(x)) => {
                                if x as u64 != m {
                                    out.violate("C15/limit/wrong-value-in-error", format!("m={m}: error reports {x}"));
                                }
                                let lb = &host_b.log;
                                let la = &host_a.log;
                                if lb.len() > la.len() || lb[..] != la[..lb.len()] {
                                    out.violate("C15/limit/log-not-prefix", format!("m={m} n={n}: the limited run's host log is not a prefix of the unlimited run's log"));
                                }
                                if let Some(e) = lb.iter().find(|e| e.clk as u64 > m) {
                                    out.violate("C15/limit/executed-past-limit", format!("m={m} n={n}: host saw an event at clk {}", e.clk));
                                }
                                let want = la.iter().filter(|e| (e.clk as u64) < m).count();
                                if lb.len() < want {
                                    out.violate("C15/limit/stopped-early", format!("m={m} n={n}: only {} of the {} events before clk {m} happened", lb.len(), want));
                                }
                            }
                            Outcome::Ok(_) => out.violate("C15/limit/succeeded-beyond-limit", format!("program needs n={n} cycles but succeeded with limit m={m}")),
                            other => out.violate(format!("C15/limit/{}", other.class()), format!("m={m} n={n}: ended with {} instead of CycleLimitExceeded", other.class())),
                        }
                    }
                }
                out.nontrivial = above > 0 && (below > 0 || n <= 64);
                if n > 64 {
                    out.count("probe:need-above-minimum");
                }
                if !host_a.log.is_empty() {
                    out.count("probe:host-events-present");
                }
                out.sample = Some(json!({"kind": "term", "source": spec.source, "need_n": n, "instants": sc["instants"], "host_events": host_a.log.len()}));
            }
        }
        out.obs = obs.finish();
        out
    }
    fn shrink_arrays(&self) -> Vec<&'static str> {
        vec!["/instants", "/limits", "/pairs"]
    }
    fn components_real(&self) -> Vec<&'static str> {
        vec!["assembler", "processor (execute, System::advance_clock)", "ExecutionOptions::new", "MemAdviceProvider"]
    }
    fn components_simulated(&self) -> Vec<&'static str> {
        vec!["timer (max_cycles chosen by the simulator)", "SimHost event log", "program generator"]
    }
    fn assumptions(&self) -> Vec<&'static str> {
        vec!["the cycle need n of a program is the clock value at which the unlimited execution ends (TraceLenSummary::main_trace_len)", "decorator events carry the clock at which they were raised"]
    }
}
