pub mod host;
pub mod vm;
pub mod asm;
