//! AIR monitor: evaluates every transition constraint on every non-exempt row and every boundary
//! assertion of the processor AIR on a stored execution trace (seam S8), main and auxiliary
//! segment (under seeded challenges: seam S5). Own loop, not winterfell's `validate`.

use miden_air::trace::{decoder::OP_BITS_RANGE, DECODER_TRACE_OFFSET};
use miden_air::{ProcessorAir, ProvingOptions, PublicInputs};
use processor::{ColMatrix, ExecutionTrace, StackInputs};
use vm_core::{Felt, FieldElement, QuadExtension, StarkField, ZERO};
use winter_air::{Air, AuxTraceRandElements, EvaluationFrame};
use winter_prover::Trace;

pub type Quad = QuadExtension<Felt>;

pub struct Monitor {
    pub air: ProcessorAir,
    pub periodic: Vec<Vec<Felt>>,
    pub len: usize,
    pub n_main: usize,
    pub n_aux: usize,
}

#[derive(Debug, Clone)]
pub struct Failure {
    /// "main-transition" | "aux-transition" | "main-assertion" | "aux-assertion"
    pub what: &'static str,
    pub row: usize,
    pub index: usize,
    pub opcode: u8,
}

pub fn opcode_at(main: &ColMatrix<Felt>, row: usize) -> u8 {
    let mut v = 0u8;
    for (i, c) in OP_BITS_RANGE.enumerate() {
        let b = main.get(DECODER_TRACE_OFFSET + c, row).as_int();
        v |= ((b & 1) as u8) << i;
    }
    v
}

impl Monitor {
    pub fn new(trace: &ExecutionTrace, stack_inputs: StackInputs) -> Monitor {
        let pi = PublicInputs::new(trace.program_info().clone(), stack_inputs, trace.stack_outputs().clone());
        let air = ProcessorAir::new(trace.get_info(), pi, ProvingOptions::default().into());
        let periodic = air.get_periodic_column_values();
        let n_main = air.context().num_main_transition_constraints();
        let n_aux = air.context().num_aux_transition_constraints();
        Monitor { air, periodic, len: trace.length(), n_main, n_aux }
    }

    pub fn periodic_at(&self, row: usize) -> Vec<Felt> {
        self.periodic.iter().map(|c| c[row % c.len()]).collect()
    }

    /// evaluates the main transition constraints on the row pair (cur, next) given as full rows
    pub fn eval_main(&self, row: usize, cur: &[Felt], next: &[Felt], out: &mut [Felt]) {
        let frame = EvaluationFrame::from_rows(cur.to_vec(), next.to_vec());
        let p = self.periodic_at(row);
        for x in out.iter_mut() {
            *x = ZERO;
        }
        self.air.evaluate_transition(&frame, &p, out);
    }

    /// all main transition constraints on all non-exempt rows; first failure
    pub fn check_main_transitions(&self, main: &ColMatrix<Felt>) -> Result<usize, Failure> {
        let w = main.num_cols();
        let mut cur = vec![ZERO; w];
        let mut next = vec![ZERO; w];
        let mut res = vec![ZERO; self.n_main];
        let last = self.len - 2; // two exemptions: rows 0..=len-3 are constrained
        main.read_row_into(0, &mut cur);
        for r in 0..last {
            main.read_row_into(r + 1, &mut next);
            self.eval_main(r, &cur, &next, &mut res);
            if let Some(i) = res.iter().position(|x| *x != ZERO) {
                return Err(Failure { what: "main-transition", row: r, index: i, opcode: opcode_at(main, r) });
            }
            std::mem::swap(&mut cur, &mut next);
        }
        Ok(last)
    }

    pub fn check_main_assertions(&self, main: &ColMatrix<Felt>) -> Result<usize, Failure> {
        let mut n = 0;
        for (ai, a) in self.air.get_assertions().iter().enumerate() {
            let col = a.column();
            let mut bad: Option<usize> = None;
            a.apply(self.len, |step, value| {
                n += 1;
                if main.get(col, step) != value && bad.is_none() {
                    bad = Some(step);
                }
            });
            if let Some(step) = bad {
                return Err(Failure { what: "main-assertion", row: step, index: ai * 1000 + col, opcode: 0 });
            }
        }
        Ok(n)
    }

    pub fn rand_elements(&self, challenges: &[Quad]) -> AuxTraceRandElements<Quad> {
        let mut r = AuxTraceRandElements::new();
        r.add_segment_elements(challenges.to_vec());
        r
    }

    pub fn check_aux(&self, main: &ColMatrix<Felt>, aux: &ColMatrix<Quad>, challenges: &[Quad]) -> Result<usize, Failure> {
        let rand = self.rand_elements(challenges);
        let w = main.num_cols();
        let wa = aux.num_cols();
        let mut cur = vec![ZERO; w];
        let mut next = vec![ZERO; w];
        let mut acur = vec![Quad::ZERO; wa];
        let mut anext = vec![Quad::ZERO; wa];
        let mut res = vec![Quad::ZERO; self.n_aux];
        let last = self.len - 2;
        for r in 0..last {
            main.read_row_into(r, &mut cur);
            main.read_row_into(r + 1, &mut next);
            aux.read_row_into(r, &mut acur);
            aux.read_row_into(r + 1, &mut anext);
            let mf = EvaluationFrame::from_rows(cur.clone(), next.clone());
            let af = EvaluationFrame::from_rows(acur.clone(), anext.clone());
            let p = self.periodic_at(r);
            for x in res.iter_mut() {
                *x = Quad::ZERO;
            }
            self.air.evaluate_aux_transition(&mf, &af, &p, &rand, &mut res);
            if let Some(i) = res.iter().position(|x| *x != Quad::ZERO) {
                return Err(Failure { what: "aux-transition", row: r, index: i, opcode: opcode_at(main, r) });
            }
        }
        let mut n = 0;
        for (ai, a) in self.air.get_aux_assertions(&rand).iter().enumerate() {
            let col = a.column();
            let mut bad: Option<usize> = None;
            a.apply(self.len, |step, value| {
                n += 1;
                if aux.get(col, step) != value && bad.is_none() {
                    bad = Some(step);
                }
            });
            if let Some(step) = bad {
                return Err(Failure { what: "aux-assertion", row: step, index: ai * 1000 + col, opcode: 0 });
            }
        }
        Ok(last + n)
    }
}

/// 16 challenges from integers (pairs of base elements)
pub fn challenges_from(seed_vals: &[u64]) -> Vec<Quad> {
    let mut out = vec![];
    let mut i = 0;
    while out.len() < 16 {
        let a = seed_vals.get(i).copied().unwrap_or(3 + i as u64);
        let b = seed_vals.get(i + 1).copied().unwrap_or(7 + i as u64);
        out.push(Quad::new(Felt::new(a), Felt::new(b)));
        i += 2;
    }
    out
}
