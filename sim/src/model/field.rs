//! Exact reference arithmetic in the Goldilocks field and its quadratic extension (x^2 = x - 2),
//! written with plain 128-bit integer arithmetic. The oracle of C09 must not depend on the field
//! library under test: winter-math 0.8.4's `double()` is off by one for a not fully reduced
//! Montgomery representation, which its own extension-field multiplication can produce
//! (observed: (16489080982601470761 + 4294967297 x) / (2 + (p-2) x)).

pub const P: u128 = 0xFFFF_FFFF_0000_0001;

pub fn add(a: u64, b: u64) -> u64 {
    ((a as u128 + b as u128) % P) as u64
}
pub fn sub(a: u64, b: u64) -> u64 {
    ((a as u128 + P - (b as u128 % P)) % P) as u64
}
pub fn mul(a: u64, b: u64) -> u64 {
    ((a as u128 % P) * (b as u128 % P) % P) as u64
}
pub fn pow(mut b: u64, mut e: u64) -> u64 {
    let mut r = 1u64;
    while e > 0 {
        if e & 1 == 1 {
            r = mul(r, b);
        }
        b = mul(b, b);
        e >>= 1;
    }
    r
}
pub fn inv(a: u64) -> u64 {
    pow(a, (P - 2) as u64)
}

/// (a0 + a1 x)(b0 + b1 x) with x^2 = x - 2
pub fn ext2_mul(a: (u64, u64), b: (u64, u64)) -> (u64, u64) {
    let c0 = sub(mul(a.0, b.0), mul(2, mul(a.1, b.1)));
    let c1 = add(add(mul(a.0, b.1), mul(a.1, b.0)), mul(a.1, b.1));
    (c0, c1)
}
pub fn ext2_inv(b: (u64, u64)) -> (u64, u64) {
    // conjugate of x is 1 - x
    let c = (add(b.0, b.1), sub(0, b.1));
    let n = ext2_mul(b, c);
    debug_assert_eq!(n.1, 0);
    let ni = inv(n.0);
    (mul(c.0, ni), mul(c.1, ni))
}
