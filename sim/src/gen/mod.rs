pub mod prog;
