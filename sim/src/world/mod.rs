pub mod host;
pub mod vm;
