//! vsim — deterministic simulation with fault injection for miden-vm.
mod framework;
mod gen;
mod model;
mod props;
mod rng;
mod runner;
mod shrinksrc;
mod world;

use framework::{Prop, Tier};

fn usage() -> i32 {
    println!("usage: vsim <PROPERTY> [--tier quick|thorough] [--seed N] [--runs N] [--workers N] [--no-evidence]\n       vsim replay <file>\n       vsim gen <PROPERTY> <tier> <seed> <index>\n       vsim list");
    2
}

fn main() {
    framework::install_panic_hook();
    let args: Vec<String> = std::env::args().skip(1).collect();
    let props = props::all();
    let refs: Vec<&dyn Prop> = props.iter().map(|p| p.as_ref()).collect();
    let code = real_main(&args, &refs);
    std::process::exit(code);
}

fn find<'a>(props: &[&'a dyn Prop], id: &str) -> Option<&'a dyn Prop> {
    props.iter().find(|p| p.id().eq_ignore_ascii_case(id)).copied()
}

fn real_main(args: &[String], props: &[&dyn Prop]) -> i32 {
    if args.is_empty() {
        return usage();
    }
    match args[0].as_str() {
        "list" => {
            for p in props {
                println!("{} {}", p.id(), p.level());
            }
            0
        }
        "worker" => {
            if args.len() < 4 {
                return usage();
            }
            let p = match find(props, &args[1]) {
                Some(p) => p,
                None => return 2,
            };
            let tier = Tier::parse(&args[2]).unwrap_or(Tier::Quick);
            let seed: u64 = args[3].parse().unwrap_or(rng::DEFAULT_SEED);
            runner::worker_main(p, tier, seed)
        }
        "replay" => {
            if args.len() < 2 {
                return usage();
            }
            runner::replay_main(props, &args[1])
        }
        "shrinkjob" => {
            if args.len() < 3 {
                return usage();
            }
            runner::shrinkjob_main(props, &args[1], &args[2])
        }
        "gentest" => {
            // generator health: histogram of assemble / execution outcomes
            let n: u64 = args.get(1).and_then(|s| s.parse().ok()).unwrap_or(200);
            let verbose = args.get(2).map(|s| s == "-v").unwrap_or(false);
            let mut hist: std::collections::BTreeMap<String, u64> = Default::default();
            let mut ops: std::collections::BTreeMap<&'static str, u64> = Default::default();
            for i in 0..n {
                let mut r = rng::Rng::new(rng::run_seed(7, "gentest", i));
                let spec = if i % 5 == 4 {
                    world::vm::ProgSpec::from_json(&gen::pop::stdlib_scenario(&mut r)["prog"])
                } else {
                    let cfg = gen::prog::GenCfg::swarm(&mut r);
                    let p = gen::prog::generate(&mut r, cfg);
                    world::vm::ProgSpec::from_json(&p.to_json())
                };
                let key = match spec.assemble(false) {
                    Err(e) => {
                        if verbose {
                            println!("--- {i}: {e}\n{}", spec.source);
                        }
                        format!("asm: {}", framework::msg_key(&e, 70))
                    }
                    Ok(prog) => {
                        let mut host = spec.host(vec![], Default::default());
                        let o = world::vm::run(&prog, spec.stack(), &mut host, world::vm::options(Some(1 << 22), 64, false));
                        if verbose && !o.is_ok() {
                            if let world::vm::Outcome::Err(e) = &o { println!("--- {i}: {e}\n{}", spec.source); }
                            if let world::vm::Outcome::Panic(l, m) = &o { println!("--- {i}: PANIC {l} {m}\n{}", spec.source); }
                        }
                        if let world::vm::Outcome::Ok(t) = &o {
                            use winter_prover::Trace;
                            let m = t.main_segment();
                            for r in 0..t.trace_len_summary().main_trace_len().min(t.length() - 1) {
                                *ops.entry(model::opnames::op_name(model::air_monitor::opcode_at(m, r))).or_insert(0) += 1;
                            }
                        }
                        match &o {
                            world::vm::Outcome::Err(e) => format!("exec: {}", framework::msg_key(&format!("{e}"), 50)),
                            _ => o.class(),
                        }
                    }
                };
                *hist.entry(key).or_insert(0) += 1;
            }
            for (k, v) in hist {
                println!("{v:6}  {k}");
            }
            if verbose || args.get(2).map(|s| s == "-ops").unwrap_or(false) {
                let mut v: Vec<(&str, u64)> = ops.into_iter().collect();
                v.sort_by_key(|x| x.1);
                println!("operations executed ({} distinct): {:?}", v.len(), v);
            }
            0
        }
        "dbg" => {
            // vsim dbg <file.masm>: execute, print the trace summary, run the AIR monitor, build aux
            let src = std::fs::read_to_string(&args[1]).unwrap_or_else(|_| args[1].clone());
            let mut chal: Vec<u64> = (0..32).map(|i| 0x9E37_79B9_7F4A_7C15u64.wrapping_mul(i + 11) % rng::P).collect();
            let spec = if src.trim_start().starts_with('{') {
                let v: serde_json::Value = serde_json::from_str(&src).unwrap();
                let v = if v.get("scenario").is_some() { v["scenario"].clone() } else { v };
                if v.get("challenges").is_some() {
                    chal = world::vm::u64s(&v["challenges"]);
                }
                world::vm::ProgSpec::from_json(if v.get("prog").is_some() { &v["prog"] } else { &v })
            } else {
                world::vm::ProgSpec { source: src, stdlib: true, kernel: args.get(2).cloned(), ..Default::default() }
            };
            let prog = match spec.assemble(false) {
                Ok(p) => p,
                Err(e) => {
                    println!("assemble: {e}");
                    return 1;
                }
            };
            let mut host = spec.host(vec![], Default::default());
            match world::vm::run(&prog, spec.stack(), &mut host, world::vm::options(None, 64, false)) {
                world::vm::Outcome::Ok(mut t) => {
                    use winter_prover::Trace;
                    let s = *t.trace_len_summary();
                    println!("ok: cycles={} range={} chiplets={} len={} outputs={:?}", s.main_trace_len(), s.range_trace_len(), s.chiplets_trace_len().trace_len(), t.length(), t.stack_outputs().stack().iter().take(16).collect::<Vec<_>>());
                    let mon = model::air_monitor::Monitor::new(&t, spec.stack());
                    let main = t.main_segment().clone();
                    println!("main transitions: {:?}", mon.check_main_transitions(&main));
                    println!("main assertions: {:?}", mon.check_main_assertions(&main));
                    let ch = model::air_monitor::challenges_from(&chal);
                    match framework::catch(|| t.build_aux_segment(&[], &ch)) {
                        Ok(Some(aux)) => {
                            println!("aux: {:?}", mon.check_aux(&main, &aux, &ch));
                            let l = t.length();
                            if let Ok(rows) = std::env::var("DBG_ROWS") {
                                let mut it = rows.split('-');
                                let a: usize = it.next().unwrap().parse().unwrap();
                                let b: usize = it.next().unwrap().parse().unwrap();
                                for r in a..=b {
                                    let dec: Vec<u64> = (0..24).map(|c| model::tracecols::g(&main, 8 + c, r)).collect();
                                    println!("    row {} op {} decoder {:?}", r, model::opnames::op_name(model::air_monitor::opcode_at(&main, r)), dec);
                                }
                            }
                            if let Ok(col) = std::env::var("DBG_COL") {
                                let c: usize = col.parse().unwrap_or(0);
                                for r in 0..l - 2 {
                                    if aux.get(c, r) != aux.get(c, r + 1) {
                                        println!("    col {} changes at row {} (op {}) -> {:?}", c, r, model::opnames::op_name(model::air_monitor::opcode_at(&main, r)), aux.get(c, r + 1));
                                    }
                                }
                            }
                            for c in 0..aux.num_cols() {
                                println!("  aux col {} first={:?} last(len-2)={:?}", c, aux.get(c, 0), aux.get(c, l - 2));
                            }
                        }
                        Ok(None) => println!("aux: none"),
                        Err((l, m)) => println!("aux build PANIC {l}: {m}"),
                    }
                }
                world::vm::Outcome::Err(e) => println!("exec error: {e}"),
                world::vm::Outcome::Panic(l, m) => println!("exec PANIC {l}: {m}"),
            }
            0
        }
        "dbgmasl" => {
            use vm_core::utils::{Deserializable, Serializable};
            let v: serde_json::Value = serde_json::from_str(&std::fs::read_to_string(&args[1]).unwrap()).unwrap();
            let libs = world::asm::build_libs(&v["scenario"]["libs"], true).unwrap();
            for l in libs {
                let b = l.to_bytes();
                let back = assembly::MaslLibrary::read_from_bytes(&b).unwrap();
                println!("equal={}", back == l);
                std::fs::write("/tmp/masl_a.txt", format!("{:#?}", l)).unwrap();
                std::fs::write("/tmp/masl_b.txt", format!("{:#?}", back)).unwrap();
                if back != l {
                    break;
                }
            }
            0
        }
        "q2test" => {
            use vm_core::{Felt, FieldElement, QuadExtension, StarkField};
            type Q = QuadExtension<Felt>;
            let v: Vec<u64> = args[1..].iter().map(|x| x.parse().unwrap()).collect();
            let a = Q::new(Felt::new(v[0]), Felt::new(v[1]));
            let b = Q::new(Felt::new(v[2]), Felt::new(v[3]));
            let bi = b.inv();
            let show = |q: Q| q.to_base_elements().iter().map(|x| x.as_int()).collect::<Vec<_>>();
            println!("inv(b) = {:?}", show(bi));
            println!("b*inv(b) = {:?}", show(b * bi));
            println!("a*inv(b) = {:?}", show(a * bi));
            println!("a/b = {:?}", show(a / b));
            0
        }
        "bomb" => {
            // deeply nested blocks through parser, encoder, decoder; prints the stages it survives
            use assembly::ast::{AstSerdeOptions, ProgramAst};
            use std::io::Write;
            let depth: usize = args.get(1).and_then(|s| s.parse().ok()).unwrap_or(10);
            if args.get(2).map(|s| s == "bytes").unwrap_or(false) {
                // the decoder alone: nested `while` blocks crafted directly as bytes
                let enc = |d: usize| {
                    let mut s = String::from("begin ");
                    for _ in 0..d {
                        s.push_str("push.1 while.true ");
                    }
                    s.push_str("push.0 ");
                    for _ in 0..d {
                        s.push_str("end ");
                    }
                    s.push_str("end");
                    ProgramAst::parse(&s).unwrap().to_bytes(AstSerdeOptions::new(false))
                };
                let (a, b) = (enc(2), enc(3));
                let p = a.iter().zip(b.iter()).take_while(|(x, y)| x == y).count();
                let sfx = a.iter().rev().zip(b.iter().rev()).take_while(|(x, y)| x == y).count().min(a.len() - p);
                let unit = b[p..b.len() - sfx].to_vec();
                let mut bytes = a[..p].to_vec();
                for _ in 0..depth {
                    bytes.extend_from_slice(&unit);
                }
                bytes.extend_from_slice(&a[p..]);
                println!("LEN {} bytes", bytes.len());
                println!("STAGE start");
                let _ = std::io::stdout().flush();
                let r = ProgramAst::from_bytes(&bytes);
                println!("{}", if r.is_ok() { "STAGE decoded" } else { "STAGE decode-rejected" });
                let _ = std::io::stdout().flush();
                drop(r);
                println!("STAGE done");
                return 0;
            }
            let mut src = String::from("begin ");
            for _ in 0..depth {
                src.push_str("push.1 if.true ");
            }
            src.push_str("push.1 ");
            for _ in 0..depth {
                src.push_str("end ");
            }
            src.push_str("end");
            let say = |m: &str| {
                println!("{m}");
                let _ = std::io::stdout().flush();
            };
            say("STAGE start");
            let ast = match ProgramAst::parse(&src) {
                Ok(a) => a,
                Err(_) => {
                    say("STAGE parse-rejected");
                    return 0;
                }
            };
            say("STAGE parsed");
            let bytes = ast.to_bytes(AstSerdeOptions::new(true));
            say("STAGE encoded");
            let back = ProgramAst::from_bytes(&bytes);
            say(if back.is_ok() { "STAGE decoded" } else { "STAGE decode-rejected" });
            if let Ok(b) = back {
                say(if b == ast { "STAGE equal" } else { "STAGE differs" });
                drop(b);
            }
            drop(ast);
            say("STAGE done");
            0
        }
        "c04learn" => {
            let n: u64 = args.get(1).and_then(|s| s.parse().ok()).unwrap_or(500);
            props::c04::learn(n)
        }
        "obs" => {
            if args.len() < 2 {
                return usage();
            }
            runner::obs_main(props, &args[1])
        }
        "gen" => {
            if args.len() < 5 {
                return usage();
            }
            let p = match find(props, &args[1]) {
                Some(p) => p,
                None => return 2,
            };
            let tier = Tier::parse(&args[2]).unwrap_or(Tier::Quick);
            let seed: u64 = args[3].parse().unwrap_or(rng::DEFAULT_SEED);
            let i: u64 = args[4].parse().unwrap_or(0);
            let (sc, out) = runner::run_one(p, tier, seed, i);
            println!("{}", serde_json::to_string_pretty(&sc).unwrap());
            println!("nontrivial={} cycles={} evals={} counters={:?}", out.nontrivial, out.cycles, out.evals, out.counters);
            for v in &out.violations {
                println!("VIOL {} :: {}", v.class, v.detail);
            }
            0
        }
        id => {
            let p = match find(props, id) {
                Some(p) => p,
                None => {
                    println!("HARNESS-ERROR: unknown property {id}");
                    return 2;
                }
            };
            let mut tier = std::env::var("VERIF_TIER").ok().and_then(|t| Tier::parse(&t)).unwrap_or(Tier::Quick);
            let mut seed = runner::parse_seed();
            let mut runs = None;
            let mut workers = None;
            let mut write_evidence = true;
            let mut i = 1;
            while i < args.len() {
                match args[i].as_str() {
                    "--tier" => {
                        i += 1;
                        tier = match args.get(i).and_then(|t| Tier::parse(t)) {
                            Some(t) => t,
                            None => return usage(),
                        };
                    }
                    "--seed" => {
                        i += 1;
                        seed = args.get(i).and_then(|s| s.parse().ok()).unwrap_or(seed);
                    }
                    "--runs" => {
                        i += 1;
                        runs = args.get(i).and_then(|s| s.parse().ok());
                    }
                    "--workers" => {
                        i += 1;
                        workers = args.get(i).and_then(|s| s.parse().ok());
                    }
                    "--no-evidence" => write_evidence = false,
                    _ => return usage(),
                }
                i += 1;
            }
            runner::supervise(p, &runner::SupervisorCfg { tier, seed, runs, workers, write_evidence })
        }
    }
}
