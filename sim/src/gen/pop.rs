//! The population of simulated executions shared by the trace monitors (C03, C12, C13) and by C14:
//! program + inputs + host content + knob values + challenger elements.

use crate::gen::prog::{generate, GenCfg};
use crate::rng::{Rng, P};
use serde_json::{json, Value};

pub const EXPECTED_CYCLES: [u64; 8] = [0, 64, 128, 512, 1 << 12, 1 << 14, 1 << 16, 1 << 17];

pub fn challenges(rng: &mut Rng) -> Vec<String> {
    // 16 extension-field elements = 32 base elements; degenerate challenges (0, repeated elements)
    // are not drawn: the protocol's challenge is uniformly random
    let mut v: Vec<u64> = vec![];
    while v.len() < 32 {
        let x = 2 + rng.below(P - 2);
        if !v.contains(&x) {
            v.push(x);
        }
    }
    v.iter().map(|x| x.to_string()).collect()
}

pub fn knobs(rng: &mut Rng) -> Value {
    json!({
        "expected_cycles": *rng.pick(&EXPECTED_CYCLES),
        "expected_cycles_2": *rng.pick(&EXPECTED_CYCLES),
        "tracing": rng.chance(1, 2),
        "debug_asm": rng.chance(1, 3),
    })
}

pub fn scenario(rng: &mut Rng, cfg: GenCfg) -> Value {
    let p = generate(rng, cfg);
    json!({"prog": p.to_json(), "knobs": knobs(rng), "challenges": challenges(rng)})
}

pub fn swarm_scenario(rng: &mut Rng) -> Value {
    let cfg = GenCfg::swarm(rng);
    scenario(rng, cfg)
}
