//! G_asm / G_ser: small generated libraries (modules with exported, internal and re-exported
//! procedures, docs, cross-module and cross-library imports) and programs that use them.

use crate::gen::prog::{neutral_body_text, GenCfg};
use crate::rng::Rng;
use serde_json::{json, Value};

#[derive(Clone, Debug)]
pub struct GenModule {
    /// full path, e.g. "lib0::m1" or "lib0::sub::m2"
    pub path: String,
    pub source: String,
    /// exported names (own procedures and re-export aliases)
    pub exports: Vec<String>,
}

#[derive(Clone, Debug)]
pub struct GenLib {
    pub namespace: String,
    pub version: (u16, u16, u16),
    pub modules: Vec<GenModule>,
    pub deps: Vec<String>,
}

fn body_cfg(rng: &mut Rng) -> GenCfg {
    let mut c = GenCfg::swarm(rng);
    c.max_nest = rng.below(2) as u32;
    c.chunk_max = *rng.pick(&[2usize, 4, 8, 12]);
    c.w_crypto = c.w_crypto.min(1);
    c.w_adv = 0;
    c.w_deco = c.w_deco.min(1);
    c.range_heavy = false;
    c
}

/// generates `nlibs` libraries; later libraries may import earlier ones
pub fn gen_libs(rng: &mut Rng, nlibs: usize) -> Vec<GenLib> {
    let mut libs: Vec<GenLib> = vec![];
    for k in 0..nlibs {
        let ns = format!("lib{}", k);
        let nmods = rng.range(1, 3) as usize;
        let mut modules: Vec<GenModule> = vec![];
        let mut deps: Vec<String> = vec![];
        for j in 0..nmods {
            let path = if rng.chance(1, 4) { format!("{}::sub::m{}", ns, j) } else { format!("{}::m{}", ns, j) };
            let mut src = String::new();
            if rng.chance(1, 2) {
                src.push_str(&format!("#! module {} of library {}{}\n#! second doc line{}\n\n", j, k, doc_tail(rng), doc_tail(rng)));
            }
            // importable modules: earlier modules of this library and modules of earlier libraries
            let mut importable: Vec<(String, Vec<String>)> = modules.iter().map(|m| (m.path.clone(), m.exports.clone())).collect();
            for l in &libs {
                for m in &l.modules {
                    importable.push((m.path.clone(), m.exports.clone()));
                }
            }
            let mut imported: Vec<(String, String, Vec<String>)> = vec![]; // (path, short name, exports)
            for (p, ex) in &importable {
                if rng.chance(1, 2) && !ex.is_empty() {
                    let short = p.rsplit("::").next().unwrap().to_string();
                    if imported.iter().any(|(_, s, _)| *s == short) {
                        continue;
                    }
                    src.push_str(&format!("use.{}\n", p));
                    let lib_ns = p.split("::").next().unwrap().to_string();
                    if lib_ns != ns && !deps.contains(&lib_ns) {
                        deps.push(lib_ns);
                    }
                    imported.push((p.clone(), short, ex.clone()));
                }
            }
            src.push('\n');
            let mut exports: Vec<String> = vec![];
            // re-exports
            for (_, short, ex) in &imported {
                if rng.chance(1, 3) {
                    let f = rng.pick(ex).clone();
                    let alias = format!("re{}_{}", exports.len(), f);
                    if rng.chance(1, 2) {
                        if rng.chance(1, 3) {
                            src.push_str(&format!("#! procedure f re-exported as {}{}\n", alias, doc_tail(rng)));
                        }
                        src.push_str(&format!("export.{}::{}->{}\n", short, f, alias));
                        exports.push(alias);
                    } else if !exports.contains(&f) {
                        src.push_str(&format!("export.{}::{}\n", short, f));
                        exports.push(f);
                    }
                }
            }
            src.push('\n');
            let nprocs = rng.range(1, 4) as usize;
            let mut local_names: Vec<String> = vec![];
            for n in 0..nprocs {
                let exported = n == nprocs - 1 || rng.chance(2, 3);
                let name = if exported { format!("f{}_{}_{}", k, j, n) } else { format!("internal{}", n) };
                let locals = if rng.chance(1, 3) { rng.range(1, 4) as u32 } else { 0 };
                if exported && rng.chance(1, 2) {
                    src.push_str(&format!("#! procedure {} of module {}{}\n", name, path, doc_tail(rng)));
                }
                src.push_str(&format!("{}.{}{}\n", if exported { "export" } else { "proc" }, name, if locals > 0 { format!(".{}", locals) } else { String::new() }));
                let cfg = body_cfg(rng);
                src.push_str(&neutral_body_text(rng, cfg, locals, 1));
                // invocations of earlier local procedures and of imported procedures
                for _ in 0..rng.below(3) {
                    let how = *rng.pick(&["exec", "exec", "call"]);
                    if !local_names.is_empty() && rng.chance(1, 2) {
                        src.push_str(&format!("    {}.{}\n", how, rng.pick(&local_names)));
                    } else if !imported.is_empty() {
                        let (_, short, ex) = rng.pick(&imported).clone();
                        src.push_str(&format!("    {}.{}::{}\n", how, short, rng.pick(&ex)));
                    }
                }
                src.push_str("end\n\n");
                local_names.push(name.clone());
                if exported {
                    exports.push(name);
                }
            }
            modules.push(GenModule { path, source: src, exports });
        }
        libs.push(GenLib { namespace: ns, version: (rng.below(3) as u16, rng.below(10) as u16, rng.below(100) as u16), modules, deps });
    }
    libs
}

/// a program that uses the libraries (imports, exec/call of exported procedures, procref + dyn)
pub fn gen_user_program(rng: &mut Rng, libs: &[GenLib]) -> String {
    let mut src = String::new();
    let mut imported: Vec<(String, Vec<String>)> = vec![];
    for l in libs {
        for m in &l.modules {
            if rng.chance(2, 3) && !m.exports.is_empty() {
                let short = m.path.rsplit("::").next().unwrap().to_string();
                if imported.iter().any(|(s, _)| *s == short) {
                    continue;
                }
                src.push_str(&format!("use.{}\n", m.path));
                imported.push((short, m.exports.clone()));
            }
        }
    }
    src.push('\n');
    let nlocal = rng.below(3);
    let mut locals: Vec<String> = vec![];
    for i in 0..nlocal {
        let name = format!("u{}", i);
        let nl = if rng.chance(1, 3) { rng.range(1, 3) as u32 } else { 0 };
        src.push_str(&format!("proc.{}{}\n", name, if nl > 0 { format!(".{}", nl) } else { String::new() }));
        let cfg = body_cfg(rng);
        src.push_str(&neutral_body_text(rng, cfg, nl, 1));
        if !imported.is_empty() && rng.chance(1, 2) {
            let (short, ex) = rng.pick(&imported).clone();
            src.push_str(&format!("    exec.{}::{}\n", short, rng.pick(&ex)));
        }
        src.push_str("end\n\n");
        locals.push(name);
    }
    src.push_str("begin\n");
    let cfg = body_cfg(rng);
    src.push_str(&neutral_body_text(rng, cfg, 0, 1));
    let ninv = rng.range(1, 5);
    for _ in 0..ninv {
        let pick_local = !locals.is_empty() && (imported.is_empty() || rng.chance(1, 3));
        let target = if pick_local {
            rng.pick(&locals).clone()
        } else if !imported.is_empty() {
            let (short, ex) = rng.pick(&imported).clone();
            format!("{}::{}", short, rng.pick(&ex))
        } else {
            continue;
        };
        match rng.below(5) {
            0 | 1 => src.push_str(&format!("    exec.{}\n", target)),
            2 => src.push_str(&format!("    call.{}\n", target)),
            3 => src.push_str(&format!("    procref.{} dynexec dropw\n", target)),
            _ => src.push_str(&format!("    procref.{} dyncall dropw\n", target)),
        }
        src.push_str("    push.1 drop\n");
    }
    src.push_str("end\n");
    src
}

pub fn libs_to_json(libs: &[GenLib]) -> Value {
    json!(libs
        .iter()
        .map(|l| json!({
            "namespace": l.namespace,
            "version": [l.version.0, l.version.1, l.version.2],
            "deps": l.deps,
            "modules": l.modules.iter().map(|m| json!({"path": m.path, "source": m.source})).collect::<Vec<_>>(),
        }))
        .collect::<Vec<_>>())
}

/// the variable part of a doc comment: plain, non-ASCII (2-, 3- and 4-byte UTF-8 sequences), long
fn doc_tail(rng: &mut Rng) -> String {
    match rng.below(8) {
        0 | 1 => String::new(),
        2 => " - plain ascii text, with punctuation: (a, b) -> [c]".to_string(),
        3 => " \u{2014} na\u{ef}ve caf\u{e9} \u{2192} r\u{e9}sum\u{e9}".to_string(),
        4 => " \u{6f22}\u{5b57}\u{30c6}\u{30b9}\u{30c8}".to_string(),
        5 => " \u{1f680}\u{1f680} x \u{1d54f}".to_string(),
        6 => format!(" {}", "long ".repeat(rng.range(20, 90) as usize)),
        _ => format!(" \u{e9}{}", "\u{e9}".repeat(rng.range(1, 60) as usize)),
    }
}
