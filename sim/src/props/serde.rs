//! C10 — serialised code and data round-trip and recompile to the same program (fault-free leg of S3)
//! C19 — decoders of untrusted bytes never panic and accept only what they can re-encode (S2/S3 faults)

use crate::framework::*;
use crate::gen::lib::{gen_libs, gen_user_program, libs_to_json};
use crate::gen::prog::{generate, GenCfg};
use crate::rng::{Fnv, Rng, P};
use crate::world::asm::{build_lib, build_libs};
use crate::world::host::HostCfg;
use crate::world::vm::{self, ProgSpec};
use assembly::ast::{AstSerdeOptions, ModuleAst, ProgramAst};
use assembly::{Assembler, Library, MaslLibrary};
use miden_air::ExecutionProof;
use processor::{AdviceInputs, Kernel, ProgramInfo, StackInputs, StackOutputs};
use serde_json::{json, Value};
use vm_core::utils::{Deserializable, Serializable, SliceReader};
use vm_core::Felt;

pub struct C10;
pub struct C19;

/// instruction forms (every instruction variant in every immediate form the parser accepts); `L`
/// marks forms that need a procedure with locals, `K` forms only valid in a kernel
pub const ZOO: &[&str] = &[
    "assert", "assert.err=1", "assertz", "assertz.err=4294967295", "assert_eq", "assert_eq.err=3", "assert_eqw", "assert_eqw.err=77", "add", "add.1", "add.7", "add.18446744069414584320", "sub", "sub.1", "sub.9",
    "mul", "mul.1", "mul.5", "div", "div.1", "div.3", "neg", "inv", "pow2", "exp", "exp.0", "exp.1", "exp.2", "exp.3", "exp.4", "exp.5", "exp.6", "exp.7", "exp.8", "exp.100", "exp.u1", "exp.u5", "exp.u64", "ilog2",
    "not", "and", "or", "xor", "eq", "eq.0", "eq.5", "neq", "neq.0", "neq.9", "lt", "lte", "gt", "gte", "is_odd", "eqw", "ext2add", "ext2sub", "ext2mul", "ext2div", "ext2neg", "ext2inv",
    "u32test", "u32testw", "u32assert", "u32assert.err=5", "u32assert2", "u32assert2.err=6", "u32assertw", "u32assertw.err=7", "u32cast", "u32split",
    "u32wrapping_add", "u32wrapping_add.1", "u32wrapping_add.4294967295", "u32overflowing_add", "u32overflowing_add.3", "u32overflowing_add3", "u32wrapping_add3",
    "u32wrapping_sub", "u32wrapping_sub.1", "u32wrapping_sub.7", "u32overflowing_sub", "u32overflowing_sub.2", "u32wrapping_mul", "u32wrapping_mul.3", "u32overflowing_mul", "u32overflowing_mul.4",
    "u32overflowing_madd", "u32wrapping_madd", "u32div", "u32div.3", "u32mod", "u32mod.5", "u32divmod", "u32divmod.7", "u32and", "u32or", "u32xor", "u32not",
    "u32shr", "u32shr.3", "u32shr.31", "u32shl", "u32shl.4", "u32shl.0", "u32rotr", "u32rotr.5", "u32rotl", "u32rotl.6", "u32popcnt", "u32clz", "u32ctz", "u32clo", "u32cto",
    "u32lt", "u32lte", "u32gt", "u32gte", "u32min", "u32max", "drop", "dropw", "padw",
    "dup", "dup.0", "dup.1", "dup.2", "dup.3", "dup.4", "dup.5", "dup.6", "dup.7", "dup.8", "dup.9", "dup.10", "dup.11", "dup.12", "dup.13", "dup.14", "dup.15", "dupw", "dupw.0", "dupw.1", "dupw.2", "dupw.3",
    "swap", "swap.1", "swap.2", "swap.3", "swap.4", "swap.5", "swap.6", "swap.7", "swap.8", "swap.9", "swap.10", "swap.11", "swap.12", "swap.13", "swap.14", "swap.15", "swapw", "swapw.1", "swapw.2", "swapw.3", "swapdw",
    "movup.2", "movup.3", "movup.4", "movup.5", "movup.6", "movup.7", "movup.8", "movup.9", "movup.10", "movup.11", "movup.12", "movup.13", "movup.14", "movup.15", "movupw.2", "movupw.3",
    "movdn.2", "movdn.3", "movdn.4", "movdn.5", "movdn.6", "movdn.7", "movdn.8", "movdn.9", "movdn.10", "movdn.11", "movdn.12", "movdn.13", "movdn.14", "movdn.15", "movdnw.2", "movdnw.3",
    "cswap", "cswapw", "cdrop", "cdropw", "push.0", "push.1", "push.2", "push.255", "push.256", "push.65535", "push.65536", "push.4294967295", "push.4294967296", "push.18446744069414584320",
    "push.0x00", "push.0x01ff", "push.0xffffffff00000000", "push.1.2", "push.1.2.3", "push.1.2.3.4", "push.0.1.2.3.4.5.6.7.8.9.10.11.12.13.14.15", "push.0x01.0x0203.4",
    "push.0x0100000000000000020000000000000003000000000000000400000000000000", "push.0x01000000000000000200000000000000", "push.ZOOCONST",
    "sdepth", "clk", "mem_load", "mem_load.5", "mem_load.4294967295", "mem_loadw", "mem_loadw.6", "mem_store", "mem_store.7", "mem_storew", "mem_storew.8", "mem_stream",
    "Lloc_load.0", "Lloc_loadw.1", "Lloc_store.2", "Lloc_storew.0", "Llocaddr.1", "adv_pipe", "adv_push.1", "adv_push.2", "adv_push.7", "adv_push.16", "adv_loadw",
    "adv.push_mapval", "adv.push_mapval.1", "adv.push_mapval.3", "adv.push_mapvaln", "adv.push_mapvaln.2", "adv.push_mtnode", "adv.push_u64div", "adv.push_ext2intt", "adv.push_smtget", "adv.push_smtset", "adv.push_smtpeek",
    "adv.push_sig.rpo_falcon512", "adv.insert_mem", "adv.insert_hdword", "adv.insert_hdword.1", "adv.insert_hdword.255", "adv.insert_hperm",
    "hash", "hmerge", "hperm", "mtree_get", "mtree_set", "mtree_merge", "mtree_verify", "fri_ext2fold4", "rcomb_base", "dynexec", "dyncall",
    "debug.stack", "debug.stack.1", "debug.stack.255", "debug.mem", "debug.mem.5", "debug.mem.1.9", "Ldebug.local", "Ldebug.local.1", "Ldebug.local.0.2", "emit.0", "emit.1", "emit.4294967295", "trace.0", "trace.42",
    "Kcaller",
];

/// a source exercising a random sample of instruction forms inside a branch that is never taken
pub fn zoo_source(rng: &mut Rng, n: usize, base: &str) -> String {
    let mut plain = vec![];
    let mut local = vec![];
    for _ in 0..n {
        let f = *rng.pick(ZOO);
        if let Some(x) = f.strip_prefix('L') {
            local.push(x.to_string());
        } else if f.starts_with('K') {
            continue;
        } else {
            plain.push(f.to_string());
        }
    }
    let mut s = String::from("const.ZOOCONST=12345\n\n");
    s.push_str("proc.zoo_local.3\n    push.0\n    if.true\n");
    for l in &local {
        s.push_str(&format!("        {}\n", l));
    }
    s.push_str("        push.1 drop\n    end\nend\n\n");
    // splice into the base program: procedures first, zoo branch at the start of the main body
    let (head, body) = match base.find("begin") {
        Some(i) => (&base[..i], &base[i + 5..]),
        None => ("", " push.1 drop end"),
    };
    // imports must stay at the very top
    let mut imports = String::new();
    let mut rest = String::new();
    for line in head.lines() {
        if line.trim_start().starts_with("use.") {
            imports.push_str(line);
            imports.push('\n');
        } else {
            rest.push_str(line);
            rest.push('\n');
        }
    }
    let mut out = format!("{}{}{}", imports, s, rest);
    out.push_str("begin\n    push.0\n    if.true\n        exec.zoo_local\n");
    let mut line = String::from("       ");
    for p in &plain {
        line.push(' ');
        line.push_str(p);
        if line.len() > 90 {
            out.push_str(&line);
            out.push('\n');
            line = String::from("       ");
        }
    }
    out.push_str(&line);
    out.push('\n');
    // structural forms with boundary parameters
    match rng.below(8) {
        0 => out.push_str(&format!("        repeat.{}\n            push.1 drop\n        end\n", *rng.pick(&[255u64, 256, 65535, 65536, 65537, 70000, 131073]))),
        1 => out.push_str("        push.1\n        while.true\n            push.0\n        end\n"),
        2 => out.push_str("        push.1\n        if.true\n            push.2\n        else\n            push.3 repeat.2 push.4 drop end\n        end\n        drop\n"),
        _ => {}
    }
    out.push_str("    end\n");
    out.push_str(body);
    out
}

fn serde_scenario(rng: &mut Rng) -> Value {
    let nlibs = rng.range(1, 3) as usize;
    let libs = gen_libs(rng, nlibs);
    let user = gen_user_program(rng, &libs);
    let nzoo = rng.range(5, 60) as usize;
    let mut user_zoo = zoo_source(rng, nzoo, &user);
    if rng.chance(1, 60) {
        // deliberate probe: the `breakpoint` instruction is not encoded (DESIGN F28)
        user_zoo = "begin push.1 breakpoint drop end".to_string();
    }
    let mut cfg = GenCfg::swarm(rng);
    cfg.max_dyn_ops = 1500;
    let p = generate(rng, cfg);
    let felts: Vec<String> = (0..rng.range(0, 40)).map(|_| rng.felt().to_string()).collect();
    let outs: Vec<String> = (0..rng.range(16, 30)).map(|_| rng.felt().to_string()).collect();
    let nproc = rng.range(0, 4);
    let khashes: Vec<Vec<String>> = (0..nproc).map(|_| (0..4).map(|_| rng.below(P).to_string()).collect()).collect();
    json!({
        "libs": libs_to_json(&libs),
        "user": user_zoo,
        "prog": p.to_json(),
        "stack_inputs": felts,
        "stack_outputs": outs,
        "kernel_hashes": khashes,
        "program_hash": (0..4).map(|_| rng.below(P).to_string()).collect::<Vec<_>>(),
    })
}

fn word_of(v: &Value) -> vm_core::Word {
    let x = vm::u64s(v);
    [Felt::new(x.first().copied().unwrap_or(0)), Felt::new(x.get(1).copied().unwrap_or(0)), Felt::new(x.get(2).copied().unwrap_or(0)), Felt::new(x.get(3).copied().unwrap_or(0))]
}

fn data_values(sc: &Value) -> (StackInputs, Option<StackOutputs>, Option<Kernel>, Option<ProgramInfo>) {
    let ins: Vec<Felt> = vm::u64s(&sc["stack_inputs"]).iter().map(|v| Felt::new(*v)).collect();
    let si = StackInputs::new(ins);
    let os = vm::u64s(&sc["stack_outputs"]);
    let addrs: Vec<u64> = if os.len() > 16 { (0..=(os.len() - 16) as u64).map(|i| if i == 0 { 0 } else { i * 3 + 1 }).collect() } else { vec![] };
    let so = StackOutputs::new(os, addrs).ok();
    let hashes: Vec<processor::Digest> = sc["kernel_hashes"].as_array().cloned().unwrap_or_default().iter().map(|h| word_of(h).into()).collect();
    let k = Kernel::new(&hashes).ok();
    let pi = k.clone().map(|k| ProgramInfo::new(word_of(&sc["program_hash"]).into(), k));
    (si, so, k, pi)
}

fn scratch_dir(tag: u64) -> std::path::PathBuf {
    let base = std::env::var("VERIF_HOME").unwrap_or_else(|_| "/verif".into());
    std::path::PathBuf::from(format!("{}/sim/scratch/{}-{:016x}", base, std::process::id(), tag))
}

impl Prop for C10 {
    fn id(&self) -> &'static str {
        "C10"
    }
    fn level(&self) -> &'static str {
        "exploration"
    }
    fn runs(&self, tier: Tier) -> u64 {
        match tier {
            Tier::Quick => 1500,
            Tier::Thorough => 100_000,
        }
    }
    fn rule(&self) -> &'static str {
        "one run = generated libraries (modules with docs, imports, re-exports, locals), a user program over them extended with a random sample of the instruction-form table, a G_all program, and data values; every artefact is serialised (ASTs with and without imports, source locations written and reloaded; libraries also through write_to_dir/read_from_file on the real file system), read back fault-free, compared for equality, recompiled (same MAST root, same code-block table) and re-executed (same outputs). Evaluations = artefacts round-tripped; non-trivial = at least one AST and one library round trip and a recompilation were compared; distinct = digest of the scenario."
    }
    fn generate(&self, rng: &mut Rng, _tier: Tier, _index: u64) -> Value {
        serde_scenario(rng)
    }
    fn execute(&self, sc: &Value) -> RunOut {
        let mut out = RunOut::default();
        out.digest = digest_value(sc);
        let mut obs = Fnv::new();
        let mut compared = 0u64;
        // ---- libraries ----------------------------------------------------------------------
        let mut libs_rt: Vec<MaslLibrary> = vec![];
        let libs = match build_libs(&sc["libs"], true) {
            Ok(l) => l,
            Err(e) => {
                out.count("outcome:library-build-failed");
                out.sample = Some(json!({"error": e}));
                return out;
            }
        };
        for (li, lib) in libs.iter().enumerate() {
            for with_loc in [true, false] {
                let l = if with_loc { lib.clone() } else { build_lib(&sc["libs"][li], false).unwrap() };
                let bytes = l.to_bytes();
                obs.bytes(&bytes);
                out.evals += 1;
                match catch(|| MaslLibrary::read_from_bytes(&bytes)) {
                    Ok(Ok(back)) => {
                        let mut expect = l.clone();
                        if !with_loc {
                            expect.clear_locations();
                        }
                        if back != expect {
                            out.violate(format!("C10/masl/bytes-roundtrip-differs/loc={}", with_loc), format!("library {} decoded from its own bytes differs", lib.root_ns().as_str()));
                        }
                        compared += 1;
                    }
                    Ok(Err(e)) => out.violate("C10/masl/bytes-roundtrip-error", format!("{e}")),
                    Err((l, m)) => out.violate(format!("C10/masl/panic/{}", l), m),
                }
            }
            // the real file system: write_to_dir then read_from_file
            let dir = scratch_dir(out.digest ^ li as u64);
            let r = catch(|| {
                lib.write_to_dir(&dir).map_err(|e| format!("write_to_dir: {e}"))?;
                let path = dir.join(format!("{}.masl", lib.root_ns().as_str()));
                MaslLibrary::read_from_file(&path).map_err(|e| format!("read_from_file: {e}"))
            });
            let _ = std::fs::remove_dir_all(&dir);
            out.evals += 1;
            match r {
                Ok(Ok(back)) => {
                    if back != *lib {
                        out.violate("C10/masl/file-roundtrip-differs", format!("library {} read back from its .masl file differs", lib.root_ns().as_str()));
                    }
                    libs_rt.push(back);
                }
                Ok(Err(e)) => out.violate("C10/masl/file-roundtrip-error", e),
                Err((l, m)) => out.violate(format!("C10/masl/panic/{}", l), m),
            }
            // module ASTs
            for m in lib.modules() {
                for opt in [true, false] {
                    out.evals += 1;
                    let r = catch(|| {
                        let bytes = m.ast.to_bytes(AstSerdeOptions::new(opt));
                        let mut back = ModuleAst::from_bytes(&bytes).map_err(|e| format!("{e}"))?;
                        let mut locs = Vec::new();
                        m.ast.write_source_locations(&mut locs);
                        back.load_source_locations(&mut SliceReader::new(&locs)).map_err(|e| format!("locations: {e}"))?;
                        let back = if !opt { back.with_import_info(m.ast.import_info().clone()) } else { back };
                        Ok::<bool, String>(back == m.ast)
                    });
                    match r {
                        Ok(Ok(true)) => compared += 1,
                        Ok(Ok(false)) => out.violate(format!("C10/module-ast/roundtrip-differs/imports={}", opt), format!("module {} differs after to_bytes/from_bytes + source locations", m.path.path())),
                        Ok(Err(e)) => out.violate("C10/module-ast/roundtrip-error", format!("module {}: {e}", m.path.path())),
                        Err((l, mm)) => out.violate(format!("C10/module-ast/panic/{}", l), mm),
                    }
                }
            }
        }
        // ---- program ASTs ---------------------------------------------------------------------
        let spec = ProgSpec::from_json(&sc["prog"]);
        let user_src = sc["user"].as_str().unwrap_or("begin push.1 drop end").to_string();
        let mk_asm = |libs: &[MaslLibrary], kernel: &Option<String>| -> Result<Assembler, String> {
            let mut a = Assembler::default();
            for l in libs {
                a = a.with_library(l).map_err(|e| format!("{e}"))?;
            }
            if let Some(k) = kernel {
                a = a.with_kernel(k).map_err(|e| format!("{e}"))?;
            }
            Ok(a)
        };
        for (name, src, kernel, uses_libs) in [("user", user_src.clone(), None, true), ("gall", spec.source.clone(), spec.kernel.clone(), false)] {
            let ast = match catch(|| ProgramAst::parse(&src)) {
                Ok(Ok(a)) => a,
                Ok(Err(e)) => {
                    out.count(&format!("outcome:parse-failed|{}", name));
                    if name == "user" {
                        out.sample = Some(json!({"parse_error": format!("{e}"), "source": src}));
                    }
                    continue;
                }
                Err((l, m)) => {
                    out.violate(format!("C10/parse-panic/{}", l), m);
                    continue;
                }
            };
            let mut rt_ast: Option<ProgramAst> = None;
            for opt in [true, false] {
                out.evals += 1;
                let r = catch(|| {
                    let bytes = ast.to_bytes(AstSerdeOptions::new(opt));
                    let mut back = ProgramAst::from_bytes(&bytes).map_err(|e| format!("{e}"))?;
                    let mut locs = Vec::new();
                    ast.write_source_locations(&mut locs);
                    back.load_source_locations(&mut SliceReader::new(&locs)).map_err(|e| format!("locations: {e}"))?;
                    let back = if !opt { back.with_import_info(ast.import_info().clone()) } else { back };
                    Ok::<(bool, ProgramAst, usize), String>((back == ast, back, bytes.len()))
                });
                match r {
                    Ok(Ok((true, back, n))) => {
                        compared += 1;
                        obs.u64(n as u64);
                        if opt {
                            rt_ast = Some(back);
                        }
                    }
                    Ok(Ok((false, _, _))) if src.split_whitespace().any(|t| t == "breakpoint") => out.violate("C10/program-ast/breakpoint-not-encoded", format!("{name} program with a breakpoint differs after the round trip")),
                    Ok(Ok((false, _, _))) => out.violate(format!("C10/program-ast/roundtrip-differs/imports={}", opt), format!("{name} program differs after to_bytes/from_bytes + source locations")),
                    Ok(Err(e)) => {
                        let bp = src.split_whitespace().any(|t| t == "breakpoint");
                        out.violate(if bp { "C10/program-ast/breakpoint-not-encoded" } else { "C10/program-ast/roundtrip-error" }, format!("{name}: {e}"))
                    }
                    Err((l, m)) => out.violate(format!("C10/program-ast/panic/{}", l), m),
                }
            }
            // recompile: original source with original libraries vs round-tripped AST with round-tripped libraries
            let la: &[MaslLibrary] = if uses_libs { &libs } else { &[] };
            let lb: &[MaslLibrary] = if uses_libs && libs_rt.len() == libs.len() { &libs_rt } else { la };
            let r = catch(|| {
                let a = mk_asm(la, &kernel)?;
                let p1 = a.compile(&src).map_err(|e| format!("compile original: {e}"))?;
                Ok::<processor::Program, String>(p1)
            });
            let p1 = match r {
                Ok(Ok(p)) => p,
                Ok(Err(e)) => {
                    out.count(&format!("outcome:compile-failed|{}", name));
                    if out.sample.is_none() {
                        out.sample = Some(json!({"compile_error": e, "which": name}));
                    }
                    continue;
                }
                Err((l, m)) => {
                    out.count(&format!("outcome:compile-panic|{}|{}", name, l));
                    let _ = m;
                    continue;
                }
            };
            if let Some(back) = rt_ast {
                out.evals += 1;
                match catch(|| mk_asm(lb, &kernel).and_then(|a| a.compile_ast(&back).map_err(|e| format!("{e}")))) {
                    Ok(Ok(p2)) => {
                        compared += 1;
                        if p2.hash() != p1.hash() {
                            out.violate(format!("C10/recompile/hash-differs/{}", name), format!("{name}: MAST root of the round-tripped AST differs from the original's"));
                        }
                        if p2.kernel() != p1.kernel() {
                            out.violate("C10/recompile/kernel-differs", name.to_string());
                        }
                        // equally executable
                        if name == "gall" {
                            let mut h1 = spec.host(vec![], HostCfg::default());
                            let mut h2 = spec.host(vec![], HostCfg::default());
                            let o1 = vm::run(&p1, spec.stack(), &mut h1, vm::options(Some(1 << 20), 64, false));
                            let o2 = vm::run(&p2, spec.stack(), &mut h2, vm::options(Some(1 << 20), 64, false));
                            match (&o1, &o2) {
                                (vm::Outcome::Ok(t1), vm::Outcome::Ok(t2)) => {
                                    out.cycles += t1.trace_len_summary().main_trace_len() as u64;
                                    if t1.stack_outputs() != t2.stack_outputs() {
                                        out.violate("C10/recompile/outputs-differ", "execution of the round-tripped program gives different outputs");
                                    }
                                }
                                _ => {
                                    if o1.class() != o2.class() {
                                        out.violate("C10/recompile/outcome-differs", format!("{} vs {}", o1.class(), o2.class()));
                                    }
                                }
                            }
                        } else {
                            let mut h1 = ProgSpec::default().host(vec![], HostCfg::default());
                            let mut h2 = ProgSpec::default().host(vec![], HostCfg::default());
                            let o1 = vm::run(&p1, StackInputs::default(), &mut h1, vm::options(Some(1 << 20), 64, false));
                            let o2 = vm::run(&p2, StackInputs::default(), &mut h2, vm::options(Some(1 << 20), 64, false));
                            match (&o1, &o2) {
                                (vm::Outcome::Ok(t1), vm::Outcome::Ok(t2)) => {
                                    out.count("probe:user-program-executed");
                                    if t1.stack_outputs() != t2.stack_outputs() {
                                        out.violate("C10/recompile/outputs-differ", "execution of the round-tripped user program gives different outputs");
                                    }
                                }
                                _ => {
                                    out.count(&format!("outcome:user-exec|{}", o1.class()));
                                    if o1.class() != o2.class() {
                                        out.violate("C10/recompile/outcome-differs", format!("{} vs {}", o1.class(), o2.class()));
                                    }
                                }
                            }
                        }
                    }
                    Ok(Err(e)) => out.violate(format!("C10/recompile/error/{}", name), format!("{name}: the round-tripped AST does not compile: {e}")),
                    Err((l, m)) => out.violate(format!("C10/recompile/panic/{}", l), m),
                }
            }
        }
        // ---- data values ----------------------------------------------------------------------
        let (si, so, k, pi) = data_values(sc);
        out.evals += 1;
        match catch(|| StackInputs::read_from(&mut SliceReader::new(&si.to_bytes()))) {
            Ok(Ok(b)) => {
                if b.values() != si.values() {
                    out.violate("C10/data/stack-inputs-differ", "StackInputs round trip");
                }
            }
            Ok(Err(e)) => out.violate("C10/data/stack-inputs-error", format!("{e}")),
            Err((l, m)) => out.violate(format!("C10/data/panic/{}", l), m),
        }
        if let Some(so) = so {
            out.evals += 1;
            match catch(|| StackOutputs::read_from(&mut SliceReader::new(&so.to_bytes()))) {
                Ok(Ok(b)) => {
                    if b != so {
                        out.violate("C10/data/stack-outputs-differ", "StackOutputs round trip");
                    }
                }
                Ok(Err(e)) => out.violate("C10/data/stack-outputs-error", format!("{e}")),
                Err((l, m)) => out.violate(format!("C10/data/panic/{}", l), m),
            }
        }
        if let Some(k) = k {
            out.evals += 1;
            match catch(|| Kernel::read_from(&mut SliceReader::new(&k.to_bytes()))) {
                Ok(Ok(b)) => {
                    if b != k {
                        out.violate("C10/data/kernel-differs", "Kernel round trip");
                    }
                }
                Ok(Err(e)) => out.violate("C10/data/kernel-error", format!("{e}")),
                Err((l, m)) => out.violate(format!("C10/data/panic/{}", l), m),
            }
        }
        if let Some(pi) = pi {
            out.evals += 1;
            match catch(|| ProgramInfo::read_from(&mut SliceReader::new(&pi.to_bytes()))) {
                Ok(Ok(b)) => {
                    if b != pi {
                        out.violate("C10/data/program-info-differs", "ProgramInfo round trip");
                    }
                }
                Ok(Err(e)) => out.violate("C10/data/program-info-error", format!("{e}")),
                Err((l, m)) => out.violate(format!("C10/data/panic/{}", l), m),
            }
        }
        // reach: instruction forms that went through the round trip
        for tok in user_src.split_whitespace() {
            if ZOO.iter().any(|z| z.trim_start_matches(['L', 'K']) == tok) {
                out.count(&format!("reach:form|{}", tok));
            }
        }
        out.nontrivial = compared >= 3;
        out.obs = obs.finish();
        out.sample = Some(json!({"libraries": libs.len(), "modules": libs.iter().map(|l| l.modules().count()).sum::<usize>(), "user_source": user_src, "compared": compared}));
        out
    }
    fn shrink_candidates(&self, sc: &Value) -> Vec<Value> {
        let mut v = crate::shrinksrc::source_candidates(sc, "/user");
        v.extend(crate::shrinksrc::source_candidates(sc, "/prog/source"));
        v.extend(crate::shrinksrc::array_candidates(sc, "/libs"));
        v
    }
    fn components_real(&self) -> Vec<&'static str> {
        vec!["parser", "AST / module / MaslLibrary serialisers and deserialisers", "MaslLibrary::write_to_dir / read_from_file (real files under sim/scratch)", "assembler", "processor", "data type serialisers (StackInputs, StackOutputs, Kernel, ProgramInfo)"]
    }
    fn components_simulated(&self) -> Vec<&'static str> {
        vec!["disk between writer and reader (fault free here; the faulty leg is C19)", "library / program / instruction-form generators"]
    }
    fn assumptions(&self) -> Vec<&'static str> {
        vec!["execution proofs are round-tripped in C01", "the instruction-form table is the list of forms the v0.8 parser accepts (forms a later parser adds are not covered)"]
    }
}

// ------------------------------------------------------------------------------------------------
// C19

#[derive(Clone, Copy)]
enum Dec {
    ProgramAst,
    ModuleAst,
    Masl,
    Kernel,
    ProgramInfo,
    StackInputs,
    StackOutputs,
    Proof,
}

impl Dec {
    fn name(&self) -> &'static str {
        match self {
            Dec::ProgramAst => "ProgramAst",
            Dec::ModuleAst => "ModuleAst",
            Dec::Masl => "MaslLibrary",
            Dec::Kernel => "Kernel",
            Dec::ProgramInfo => "ProgramInfo",
            Dec::StackInputs => "StackInputs",
            Dec::StackOutputs => "StackOutputs",
            Dec::Proof => "ExecutionProof",
        }
    }
    /// decode; Ok(Some(re-encoding round trip holds)) | Ok(None) rejected
    fn check(&self, bytes: &[u8]) -> Result<Option<bool>, (String, String)> {
        catch(|| match self {
            Dec::ProgramAst => ProgramAst::from_bytes(bytes).ok().map(|v| {
                let b = v.to_bytes(AstSerdeOptions::new(true));
                ProgramAst::from_bytes(&b).map(|w| w == v).unwrap_or(false)
            }),
            Dec::ModuleAst => ModuleAst::from_bytes(bytes).ok().map(|v| {
                let b = v.to_bytes(AstSerdeOptions::new(true));
                ModuleAst::from_bytes(&b).map(|w| w == v).unwrap_or(false)
            }),
            Dec::Masl => MaslLibrary::read_from_bytes(bytes).ok().map(|v| {
                let b = v.to_bytes();
                MaslLibrary::read_from_bytes(&b).map(|w| w == v).unwrap_or(false)
            }),
            Dec::Kernel => Kernel::read_from(&mut SliceReader::new(bytes)).ok().map(|v| Kernel::read_from(&mut SliceReader::new(&v.to_bytes())).map(|w| w == v).unwrap_or(false)),
            Dec::ProgramInfo => ProgramInfo::read_from(&mut SliceReader::new(bytes)).ok().map(|v| ProgramInfo::read_from(&mut SliceReader::new(&v.to_bytes())).map(|w| w == v).unwrap_or(false)),
            Dec::StackInputs => StackInputs::read_from(&mut SliceReader::new(bytes)).ok().map(|v| StackInputs::read_from(&mut SliceReader::new(&v.to_bytes())).map(|w| w.values() == v.values()).unwrap_or(false)),
            Dec::StackOutputs => StackOutputs::read_from(&mut SliceReader::new(bytes)).ok().map(|v| StackOutputs::read_from(&mut SliceReader::new(&v.to_bytes())).map(|w| w == v).unwrap_or(false)),
            Dec::Proof => ExecutionProof::from_bytes(bytes).ok().map(|v| ExecutionProof::from_bytes(&v.to_bytes()).map(|w| w == v).unwrap_or(false)),
        })
    }
}

fn mutate(rng: &mut Rng, valid: &[u8], other: &[u8]) -> (Vec<u8>, &'static str) {
    let mut b = valid.to_vec();
    let n = b.len().max(1);
    match rng.below(14) {
        13 => {
            // a module / import path (u16 length + text) replaced by a path-like string at the edge of
            // the path grammar: the reserved first components, stray delimiters, bad first characters
            let mut sites: Vec<(usize, usize)> = vec![];
            let mut i = 2;
            while i + 3 <= b.len() {
                if &b[i..i + 3] == b"lib" {
                    let l = b[i - 2] as usize | ((b[i - 1] as usize) << 8);
                    if (3..=60).contains(&l) && i + l <= b.len() && b[i..i + l].iter().all(|c| c.is_ascii_alphanumeric() || *c == b':' || *c == b'_') {
                        sites.push((i, l));
                    }
                }
                i += 1;
            }
            if !sites.is_empty() {
                let (at, l) = *rng.pick(&sites);
                let long = "a".repeat(256);
                let special: [&str; 20] = ["#sys", "#exec", "#sys:", "#sys::", "#sys::a", "#exec::m", "#sysab", "#system", "#sys\u{20ac}", "#exe", "::", "a::", "::a", "a:::b", "A", "1a", "a::1", "_a", "#", &long];
                let t = rng.pick(&special).as_bytes().to_vec();
                let tail: Vec<u8> = b[at + l..].to_vec();
                b.truncate(at - 2);
                b.push((t.len() & 0xff) as u8);
                b.push((t.len() >> 8) as u8);
                b.extend(t);
                b.extend(tail);
            }
            (b, "path-at-the-edge-of-the-grammar")
        }
        12 => {
            // a text field (doc comment, name) given a large length and filled with bytes that are
            // not valid UTF-8: locate a run of printable text and rewrite the u16 length before it
            // the generated doc comments start with known words; the u16 length precedes the text
            let mut starts: Vec<usize> = vec![];
            for pat in [&b"procedure f"[..], &b"module "[..]] {
                let mut i = 2;
                while i + pat.len() <= b.len() {
                    if &b[i..i + pat.len()] == pat {
                        starts.push(i);
                    }
                    i += 1;
                }
            }
            if !starts.is_empty() {
                let s0 = *rng.pick(&starts);
                let len = *rng.pick(&[21845usize, 21846, 30000, 65535, 300]);
                // (not 0xfd..0xff: those are the block opcodes, a run of them is a recursion bomb, which is
                // exercised in a child process)
                let fill = *rng.pick(&[0xc0u8, 0x80, 0xbf, 0xe2]);
                let old_len = b[s0 - 2] as usize | ((b[s0 - 1] as usize) << 8);
                b[s0 - 2] = (len & 0xff) as u8;
                b[s0 - 1] = (len >> 8) as u8;
                let tail: Vec<u8> = b[(s0 + old_len).min(b.len())..].to_vec();
                b.truncate(s0);
                b.extend(std::iter::repeat(fill).take(len));
                b.extend(tail);
            }
            (b, "text-field-invalid-utf8")
        }
        0 | 1 => {
            let k = rng.range(1, 3);
            for _ in 0..k {
                let i = rng.usize(n);
                if i < b.len() {
                    b[i] ^= 1 << rng.below(8);
                }
            }
            (b, "bitflip")
        }
        2 => {
            let i = rng.usize(n);
            if i < b.len() {
                b[i] = *rng.pick(&[0u8, 1, 2, 0x7f, 0x80, 0xfe, 0xff]);
            }
            (b, "byte-overwrite")
        }
        3 | 4 => {
            let cut = rng.usize(n);
            b.truncate(cut);
            (b, "truncate")
        }
        5 => {
            let k = rng.range(1, 16) as usize;
            for _ in 0..k {
                b.push(rng.below(256) as u8);
            }
            (b, "garbage-tail")
        }
        6 | 7 => {
            // 2- or 4-byte window rewritten (length-field attack)
            let w = if rng.chance(1, 2) { 2 } else { 4 };
            let i = rng.usize(n);
            let v: u32 = *rng.pick(&[0u32, 1, 2, 0xffff, 0xffff_ffff, 0x7fff_ffff, 0x100, 0x1_0000]);
            for k in 0..w {
                if i + k < b.len() {
                    b[i + k] = (v >> (8 * k)) as u8;
                }
            }
            (b, "length-window")
        }
        8 => {
            // splice of two valid encodings
            let i = rng.usize(n);
            let j = rng.usize(other.len().max(1));
            b.truncate(i);
            b.extend_from_slice(&other[j.min(other.len())..]);
            (b, "splice")
        }
        9 => {
            let i = rng.usize(n);
            let k = rng.range(1, 8) as usize;
            let ins: Vec<u8> = (0..k).map(|_| rng.below(256) as u8).collect();
            let at = i.min(b.len());
            b.splice(at..at, ins);
            (b, "insert")
        }
        10 => {
            let i = rng.usize(n);
            let k = rng.range(1, 8) as usize;
            let end = (i + k).min(b.len());
            if i < end {
                b.drain(i..end);
            }
            (b, "delete")
        }
        _ => {
            let len = rng.range(0, 200) as usize;
            ((0..len).map(|_| rng.below(256) as u8).collect(), "noise")
        }
    }
}

impl Prop for C19 {
    fn id(&self) -> &'static str {
        "C19"
    }
    fn level(&self) -> &'static str {
        "fault_enumeration"
    }
    fn runs(&self, tier: Tier) -> u64 {
        match tier {
            Tier::Quick => 800,
            Tier::Thorough => 60_000,
        }
    }
    fn rule(&self) -> &'static str {
        "one run = valid encodings of every decodable type (program AST, module ASTs, .masl library, kernel, program info, stack inputs/outputs, and - in 1 run of 8 - an execution proof) each delivered through the faulty disk/channel: every truncation offset for artefacts up to 2 kB, plus sampled bit flips, byte overwrites, length-window rewrites, splices, inserts, deletes, garbage tails and pure noise; plus integer constructors fed non-canonical values. One evaluation = one decode; the decoder must return (no panic / abort) and an accepted value must re-encode to bytes that decode to an equal value. Non-trivial = the delivered bytes differ from the valid encoding; distinct = digest of (decoder, delivered bytes)."
    }
    fn generate(&self, rng: &mut Rng, tier: Tier, index: u64) -> Value {
        let mut sc = serde_scenario(rng);
        sc["mut_seed"] = json!(rng.next() >> 11);
        sc["n_mut"] = json!(if tier == Tier::Thorough { 600 } else { 250 });
        sc["with_proof"] = json!(index % 8 == 0);
        sc["bomb_depth"] = if index % 97 == 5 { json!(*rng.pick(&[50u64, 500, 5000, 30000])) } else { Value::Null };
        sc
    }
    fn execute(&self, sc: &Value) -> RunOut {
        let mut out = RunOut::default();
        out.digest = digest_value(sc);
        let mut obs = Fnv::new();
        let mut arts: Vec<(Dec, Vec<u8>)> = vec![];
        if let Ok(libs) = build_libs(&sc["libs"], true) {
            for l in &libs {
                arts.push((Dec::Masl, l.to_bytes()));
                if let Some(m) = l.modules().next() {
                    arts.push((Dec::ModuleAst, m.ast.to_bytes(AstSerdeOptions::new(true))));
                }
            }
        }
        let has_bp = sc["user"].as_str().unwrap_or("").split_whitespace().any(|t| t == "breakpoint");
        if let (false, Ok(Ok(ast))) = (has_bp, catch(|| ProgramAst::parse(sc["user"].as_str().unwrap_or("")))) {
            arts.push((Dec::ProgramAst, ast.to_bytes(AstSerdeOptions::new(true))));
        }
        let spec = ProgSpec::from_json(&sc["prog"]);
        if let Ok(Ok(ast)) = catch(|| ProgramAst::parse(&spec.source)) {
            arts.push((Dec::ProgramAst, ast.to_bytes(AstSerdeOptions::new(false))));
        }
        let (si, so, k, pi) = data_values(sc);
        arts.push((Dec::StackInputs, si.to_bytes()));
        if let Some(so) = so {
            arts.push((Dec::StackOutputs, so.to_bytes()));
        }
        if let Some(k) = k {
            arts.push((Dec::Kernel, k.to_bytes()));
        }
        if let Some(pi) = pi {
            arts.push((Dec::ProgramInfo, pi.to_bytes()));
        }
        if sc["with_proof"].as_bool().unwrap_or(false) {
            let mut small = spec.clone();
            small.source = "begin push.3 push.5 add mem_store.1 end".into();
            small.kernel = None;
            if let Ok(s) = crate::props::proof::make_session(&small, "b96", processor::ExecutionOptions::default(), None) {
                arts.push((Dec::Proof, s.proof_bytes));
            }
        }
        let mut rng = Rng::new(sc["mut_seed"].as_u64().unwrap_or(1));
        let n_mut = sc["n_mut"].as_u64().unwrap_or(100);
        let mut subs = vec![];
        let mut judge = |out: &mut RunOut, d: Dec, bytes: &[u8], fault: &str, changed: bool| {
            out.evals += 1;
            let mut h = Fnv::new();
            h.str(d.name()).bytes(bytes);
            match d.check(bytes) {
                Err((l, m)) => {
                    out.violate(format!("C19/panic/{}/{}", d.name(), l), format!("decoder {} panicked on a {} of a valid encoding ({} bytes): {}", d.name(), fault, bytes.len(), m));
                    obs.str("panic");
                }
                Ok(None) => {
                    obs.str("rej");
                    out.count(&format!("reach:outcome|{}|{}|rejected", d.name(), fault));
                }
                Ok(Some(true)) => {
                    obs.str("ok");
                    out.count(&format!("reach:outcome|{}|{}|accepted", d.name(), fault));
                }
                Ok(Some(false)) => {
                    obs.str("bad");
                    out.violate(format!("C19/accepted-not-reencodable/{}", d.name()), format!("decoder {} accepted a {} of a valid encoding but the accepted value does not survive encode/decode", d.name(), fault));
                }
            }
            if changed {
                out.count(&format!("fault:{}", fault));
                subs.push(h.finish());
            }
        };
        let narts = arts.len().max(1);
        for ai in 0..arts.len() {
            let (d, valid) = arts[ai].clone();
            // the valid encoding itself must be accepted and re-encodable
            match d.check(&valid) {
                Ok(Some(true)) => {}
                Ok(other) => out.violate(format!("C19/valid-encoding-not-accepted/{}", d.name()), format!("{:?}", other)),
                Err((l, m)) => out.violate(format!("C19/panic/{}/{}", d.name(), l), format!("on a VALID encoding: {m}")),
            }
            out.evals += 1;
            // torn write: every truncation offset for small artefacts
            if valid.len() <= 2048 {
                for cut in 0..valid.len() {
                    judge(&mut out, d, &valid[..cut], "truncate-exhaustive", true);
                }
            }
            let other = arts[(ai + 1) % narts].1.clone();
            for _ in 0..n_mut {
                let (b, fault) = mutate(&mut rng, &valid, &other);
                let changed = b != valid;
                judge(&mut out, d, &b, fault, changed);
            }
        }
        // recursion bomb: deeply nested blocks, run in a child process so that an abort (stack
        // overflow) is attributed to this fault and to the stage that died
        if let Some(depth) = sc["bomb_depth"].as_u64() {
            out.count("fault:recursion-bomb");
            out.evals += 1;
            let exe = std::env::current_exe().unwrap();
            // the same through the decoder alone: a run of nested-block opcodes, crafted as bytes
            let nbytes = depth * 3;
            if let Ok(o) = std::process::Command::new(&exe).arg("bomb").arg(nbytes.to_string()).arg("bytes").output() {
                out.evals += 1;
                let text = String::from_utf8_lossy(&o.stdout).to_string();
                let last = text.lines().filter(|l| l.starts_with("STAGE ")).last().unwrap_or("STAGE none").to_string();
                obs.str(&last);
                if !o.status.success() {
                    out.violate("C19/abort/recursion-bomb/decoder-bytes", format!("an encoding of {} nested while blocks ({} bytes) kills the process in ProgramAst::from_bytes after `{}`", nbytes, text.lines().find(|l| l.starts_with("LEN ")).unwrap_or(""), last));
                } else {
                    out.count(&format!("reach:outcome|ProgramAst|recursion-bomb-bytes|{}", last.replace("STAGE ", "")));
                }
            }
            match std::process::Command::new(exe).arg("bomb").arg(depth.to_string()).output() {
                Ok(o) => {
                    let text = String::from_utf8_lossy(&o.stdout).to_string();
                    let last = text.lines().filter(|l| l.starts_with("STAGE ")).last().unwrap_or("STAGE none").to_string();
                    obs.str(&last);
                    if !o.status.success() {
                        use std::os::unix::process::ExitStatusExt;
                        let next = match last.as_str() {
                            "STAGE start" => "parser",
                            "STAGE parsed" => "encoder",
                            "STAGE encoded" => "decoder",
                            "STAGE decoded" | "STAGE decode-rejected" => "compare",
                            _ => "drop",
                        };
                        out.violate(format!("C19/abort/recursion-bomb/{}", next), format!("nesting depth {}: the process died (signal {:?}) in the {} after `{}`", depth, o.status.signal(), next, last));
                    } else if text.contains("STAGE differs") {
                        out.violate("C19/accepted-not-reencodable/ProgramAst", format!("nesting depth {depth}: decoded AST differs"));
                    } else {
                        out.count(&format!("reach:outcome|ProgramAst|recursion-bomb|{}", last.replace("STAGE ", "")));
                    }
                }
                Err(e) => out.count(&format!("outcome:bomb-child-not-run|{}", e.kind())),
            }
        }
        // integer constructors must refuse non-canonical field elements
        for bad in [P, P + 1, u64::MAX, P + (rng.next() % (u64::MAX - P))] {
            let pos = rng.usize(17);
            let mut vals: Vec<u64> = (0..17).map(|_| rng.below(P)).collect();
            vals[pos] = bad;
            out.evals += 3;
            match catch(|| StackInputs::try_from_values(vals.clone()).is_ok()) {
                Ok(false) => {}
                Ok(true) => out.violate("C19/non-canonical-accepted/StackInputs", format!("StackInputs::try_from_values accepts {bad}")),
                Err((l, m)) => out.violate(format!("C19/panic/StackInputs/{}", l), m),
            }
            match catch(|| AdviceInputs::default().with_stack_values(vals.clone()).is_ok()) {
                Ok(false) => {}
                Ok(true) => out.violate("C19/non-canonical-accepted/AdviceInputs", format!("AdviceInputs::with_stack_values accepts {bad}")),
                Err((l, m)) => out.violate(format!("C19/panic/AdviceInputs/{}", l), m),
            }
            let mut addrs = vec![0u64, 5];
            let in_addrs = rng.chance(1, 3);
            let mut st = vals.clone();
            if in_addrs {
                st[pos] = 7;
                addrs[1] = bad;
            }
            match catch(|| StackOutputs::new(st.clone(), addrs.clone()).is_ok()) {
                Ok(false) => {}
                Ok(true) => out.violate("C19/non-canonical-accepted/StackOutputs", format!("StackOutputs::new accepts {bad} (in overflow addresses: {in_addrs})")),
                Err((l, m)) => out.violate(format!("C19/panic/StackOutputs/{}", l), m),
            }
            out.count("fault:non-canonical-integer");
        }
        {
            let vals: Vec<u64> = (0..17).map(|i| if i == 3 { P - 1 } else { i }).collect();
            if !matches!(catch(|| StackInputs::try_from_values(vals.clone()).is_ok()), Ok(true)) {
                out.violate("C19/canonical-refused/StackInputs", "p-1 refused");
            }
            if !matches!(catch(|| StackOutputs::new(vals.clone(), vec![0, P - 1]).is_ok()), Ok(true)) {
                out.violate("C19/canonical-refused/StackOutputs", "p-1 refused");
            }
        }
        out.nontrivial = !subs.is_empty();
        out.sub_digests = subs;
        out.obs = obs.finish();
        out.sample = Some(json!({"artefacts": arts.iter().map(|(d, b)| json!({"decoder": d.name(), "valid_len": b.len()})).collect::<Vec<_>>(), "mutations_per_artefact": n_mut}));
        out
    }
    fn shrink_budget(&self) -> u64 {
        30
    }
    fn components_real(&self) -> Vec<&'static str> {
        vec!["all deserialisers (ExecutionProof, ProgramAst, ModuleAst, MaslLibrary, Kernel, ProgramInfo, StackInputs, StackOutputs)", "their serialisers", "integer constructors"]
    }
    fn components_simulated(&self) -> Vec<&'static str> {
        vec!["disk / channel with storage faults (torn write at every offset, bit rot, length-field corruption, splices, noise)", "worker-process isolation to observe aborts"]
    }
    fn assumptions(&self) -> Vec<&'static str> {
        vec!["a decoder is judged on re-encodability of what it accepts, not on rejecting everything that was altered", "allocation size is not judged"]
    }
}
