//! C14 — execution is deterministic and step-through agrees with the trace
//! (knobs: seam S4; debugger client schedule: seam S7).

use crate::framework::*;
use crate::gen::pop;
use crate::gen::prog::GenCfg;
use crate::model::air_monitor::opcode_at;
use crate::model::tracecols as tc;
use crate::props::c03::trace_digest;
use crate::rng::{Fnv, Rng};
use crate::world::host::{Event, HostCfg, EV_DEBUG, EV_EVENT, EV_TRACE};
use crate::world::vm::{self, Outcome, ProgSpec};
use processor::ExecutionError;
use serde_json::{json, Value};
use std::collections::BTreeMap;
use vm_core::StarkField;
use winter_prover::Trace;

pub struct C14;

fn hostcfg(fail_at: Option<u64>) -> HostCfg {
    HostCfg { snapshot_stack: true, fail_event_at: fail_at, ..Default::default() }
}

fn filter(log: &[Event], kind: u8) -> Vec<Event> {
    let mut v: Vec<Event> = log.iter().filter(|e| e.kind == kind).cloned().collect();
    for (i, e) in v.iter_mut().enumerate() {
        e.seq = i as u64;
    }
    v
}

impl Prop for C14 {
    fn id(&self) -> &'static str {
        "C14"
    }
    fn level(&self) -> &'static str {
        "exploration"
    }
    fn runs(&self, tier: Tier) -> u64 {
        match tier {
            Tier::Quick => 1500,
            Tier::Thorough => 60_000,
        }
    }
    fn nondeterminism_is_violation(&self) -> bool {
        true
    }
    fn rule(&self) -> &'static str {
        "one run = one decorator-rich generated program executed under 3-6 knob configurations (expected_cycles 64..2^17, tracing on/off, debug/release assembly, execute vs execute_iter) whose outputs, main trace, length summary, program hash and host event log must be identical (documented exceptions: trace events only with tracing, debug decorators only in debug assembly), followed by a seeded next/back stepping schedule of the debugger client whose every reported state is compared with the trace row of the same clock (stack top, depth, fmp, ctx, memory replayed from the memory chiplet rows, op). Non-trivial = reference execution succeeded or failed at the injected host failure and at least 2 configurations and 1 schedule step were compared; distinct = digest of (source, inputs, configurations, schedule)."
    }
    fn generate(&self, rng: &mut Rng, _tier: Tier, _index: u64) -> Value {
        let mut cfg = GenCfg::swarm(rng);
        cfg.w_deco = cfg.w_deco.max(3) + 2;
        cfg.w_crypto = cfg.w_crypto.min(4);
        cfg.max_dyn_ops = 3000;
        let mut sc = pop::scenario(rng, cfg);
        let mut cfgs = vec![];
        let ncfg = rng.range(3, 6);
        for i in 0..ncfg {
            cfgs.push(json!({
                "expected_cycles": if i == 0 { 64 } else { *rng.pick(&pop::EXPECTED_CYCLES) },
                "tracing": rng.chance(1, 2),
                "debug_asm": rng.chance(1, 2),
            }));
        }
        // the same configuration twice
        let dup = cfgs[rng.usize(cfgs.len())].clone();
        cfgs.push(dup);
        sc["configs"] = json!(cfgs);
        // debugger schedule: n = next, b = back; biased to cross clock 0, direction changes, the end
        let mut sched = String::new();
        let steps = rng.range(20, 400);
        let mut mode = rng.below(4);
        for _ in 0..steps {
            if rng.chance(1, 12) {
                mode = rng.below(4);
            }
            let c = match mode {
                0 => 'n',
                1 => {
                    if rng.chance(3, 4) {
                        'n'
                    } else {
                        'b'
                    }
                }
                2 => {
                    if rng.chance(1, 2) {
                        'n'
                    } else {
                        'b'
                    }
                }
                _ => {
                    if rng.chance(1, 3) {
                        'n'
                    } else {
                        'b'
                    }
                }
            };
            sched.push(c);
        }
        if rng.chance(1, 3) {
            // run to the end first, then wander
            sched = format!("{}{}", "n".repeat(5000), sched);
        }
        sc["schedule"] = json!(sched);
        sc["fail_event_at"] = if rng.chance(1, 6) { json!(rng.below(6)) } else { Value::Null };
        sc
    }

    fn execute(&self, sc: &Value) -> RunOut {
        let mut out = RunOut::default();
        out.digest = digest_value(sc);
        let spec = ProgSpec::from_json(&sc["prog"]);
        let fail_at = sc["fail_event_at"].as_u64();
        let mut obs = Fnv::new();
        let progs: BTreeMap<bool, Result<processor::Program, String>> = [false, true].iter().map(|d| (*d, spec.assemble(*d))).collect();
        // debug-mode assembly must not change the program hash (decorators never do)
        match (&progs[&false], &progs[&true]) {
            (Ok(a), Ok(b)) => {
                if a.hash() != b.hash() {
                    out.violate("C14/knobs/debug-asm-changes-hash", "program hash differs between debug and release assembly");
                }
            }
            (Ok(_), Err(e)) | (Err(e), Ok(_)) => out.violate("C14/knobs/debug-asm-changes-assembly-result", format!("assembly succeeds in one mode only: {e}")),
            (Err(e), Err(_)) => {
                out.count("outcome:assemble-failed");
                out.sample = Some(json!({"assemble_error": e}));
                return out;
            }
        }
        if !out.violations.is_empty() {
            return out;
        }
        struct Ref {
            outputs: Option<vm_core::StackOutputs>,
            class: String,
            digest: u64,
            len: usize,
            events: Vec<Event>,
            traces: Vec<Event>,
            debugs: Vec<Event>,
            tracing: bool,
            debug_asm: bool,
        }
        let mut refs: Vec<Ref> = vec![];
        let mut first_trace = None;
        for c in sc["configs"].as_array().cloned().unwrap_or_default() {
            let e = c["expected_cycles"].as_u64().unwrap_or(64) as u32;
            let tracing = c["tracing"].as_bool().unwrap_or(false);
            let dbg = c["debug_asm"].as_bool().unwrap_or(false);
            let program = progs[&dbg].as_ref().unwrap();
            let mut host = spec.host(vec![], hostcfg(fail_at));
            let r = vm::run(program, spec.stack(), &mut host, vm::options(None, e, tracing));
            out.evals += 1;
            let class = r.class();
            let (outputs, digest, len) = match &r {
                Outcome::Ok(t) => {
                    out.cycles += t.trace_len_summary().main_trace_len() as u64;
                    (Some(t.stack_outputs().clone()), trace_digest(t.main_segment()), t.length())
                }
                _ => (None, 0, 0),
            };
            if let Outcome::Panic(l, m) = &r {
                // honest execution must not depend on knobs; a panic is compared like any other outcome
                out.count(&format!("outcome:panic|{}", l));
                let _ = m;
            }
            if first_trace.is_none() {
                if let Outcome::Ok(t) = r {
                    first_trace = Some(t);
                }
            }
            obs.str(&class).u64(digest).u64(crate::world::host::log_digest(&host.log));
            refs.push(Ref { outputs, class, digest, len, events: filter(&host.log, EV_EVENT), traces: filter(&host.log, EV_TRACE), debugs: filter(&host.log, EV_DEBUG), tracing, debug_asm: dbg });
        }
        if refs.len() >= 2 {
            let a = &refs[0];
            for (i, b) in refs.iter().enumerate().skip(1) {
                let what = format!("config 0 {} vs config {} {}", sc["configs"][0], i, sc["configs"][i]);
                if a.class != b.class {
                    out.violate("C14/knobs/outcome-differs", format!("{what}: {} vs {}", a.class, b.class));
                    continue;
                }
                if a.outputs != b.outputs {
                    out.violate("C14/knobs/outputs-differ", what.clone());
                }
                if a.digest != b.digest || a.len != b.len {
                    out.violate("C14/knobs/trace-differs", format!("{what}: main segment or length differs ({} vs {})", a.len, b.len));
                }
                if a.events != b.events {
                    out.violate("C14/knobs/event-log-differs", format!("{what}: emit events (id, clk, ctx, fmp, stack) differ"));
                }
                if a.tracing && b.tracing && a.traces != b.traces {
                    out.violate("C14/knobs/trace-event-log-differs", what.clone());
                }
                if !b.tracing && !b.traces.is_empty() {
                    out.violate("C14/knobs/trace-events-without-tracing", what.clone());
                }
                if a.debug_asm && b.debug_asm && a.debugs != b.debugs {
                    out.violate("C14/knobs/debug-event-log-differs", what.clone());
                }
                if !b.debug_asm && !b.debugs.is_empty() {
                    out.violate("C14/knobs/debug-events-in-release-assembly", what.clone());
                }
            }
            if refs.iter().any(|r| r.tracing) && refs.iter().any(|r| !r.tracing) {
                out.count("probe:tracing-on-and-off");
            }
            if refs.iter().any(|r| r.debug_asm) && refs.iter().any(|r| !r.debug_asm) {
                out.count("probe:debug-and-release-asm");
            }
            if !refs[0].events.is_empty() {
                out.count("probe:emit-events-present");
            }
        }
        // ---------------------------------------------------------------- (b) step-through
        let program = progs[&true].as_ref().unwrap();
        let sched = sc["schedule"].as_str().unwrap_or("");
        // reference trace from `execute` with the same (debug) program; on failing executions there is no trace
        let ref_trace = {
            let mut host = spec.host(vec![], hostcfg(fail_at));
            match vm::run(program, spec.stack(), &mut host, vm::options(None, 64, true)) {
                Outcome::Ok(t) => Some(t),
                _ => None,
            }
        };
        let mut host = spec.host(vec![], hostcfg(fail_at));
        let it = catch(|| processor::execute_iter(program, spec.stack(), &mut host));
        let mut it = match it {
            Ok(it) => it,
            Err((l, m)) => {
                out.violate(format!("C14/step/execute_iter-panic/{}", l), m);
                out.obs = obs.finish();
                return out;
            }
        };
        let mut steps_checked = 0u64;
        let mut last_clk: Option<u32> = None;
        let mut errors_seen = 0;
        let mut seen_by_clk: BTreeMap<u32, u64> = BTreeMap::new();
        let memrows = ref_trace.as_ref().map(|t| tc::memory_rows(t.main_segment()));
        let n_inputs = spec.stack_inputs.len();
        let overflow = ref_trace.as_ref().map(|t| tc::overflow_by_row(t.main_segment(), t.trace_len_summary().main_trace_len().min(t.length() - 2)));
        for (k, c) in sched.chars().enumerate() {
            let r = catch(|| if c == 'n' { it.next().map(|x| x.map_err(|e| format!("{e}"))) } else { it.back().map(Ok) });
            let r = match r {
                Ok(r) => r,
                Err((l, m)) => {
                    out.violate(format!("C14/step/panic/{}", l), format!("schedule step {k} ('{c}') after reporting clk {:?}: {m}", last_clk));
                    break;
                }
            };
            match r {
                None => {
                    out.count(if c == 'n' { "probe:next-past-end" } else { "probe:back-at-start" });
                    if c == 'n' && k > 6000 {
                        break;
                    }
                }
                Some(Err(_e)) => {
                    errors_seen += 1;
                    if ref_trace.is_some() {
                        out.violate("C14/step/error-on-successful-program", format!("step {k}: iterator yields an error but execute() succeeds"));
                    }
                    if errors_seen > 1 {
                        out.violate("C14/step/error-twice", "the execution error is yielded more than once");
                    }
                }
                Some(Ok(s)) => {
                    steps_checked += 1;
                    if let Some(p) = last_clk {
                        if (s.clk as i64 - p as i64).abs() > 1 {
                            out.violate("C14/step/clock-jump", format!("step {k} ('{c}'): reported clk {} after {}", s.clk, p));
                        }
                    }
                    last_clk = Some(s.clk);
                    // the state reported for a clock is the same whenever and in whichever direction it is reported
                    let mut h = Fnv::new();
                    h.u64(u32::from(s.ctx) as u64).u64(s.fmp.as_int());
                    for x in &s.stack {
                        h.u64(x.as_int());
                    }
                    for (a, wd) in &s.memory {
                        h.u64(*a);
                        for x in wd {
                            h.u64(x.as_int());
                        }
                    }
                    let hv = h.finish();
                    if let Some(prev) = seen_by_clk.insert(s.clk, hv) {
                        if prev != hv {
                            out.violate("C14/step/state-differs-between-visits", format!("clk {} reported with different state on a later visit (step {k}, '{c}')", s.clk));
                        }
                        out.count("probe:clock-revisited");
                    }
                    if let Some(t) = &ref_trace {
                        let main = t.main_segment();
                        let row = s.clk as usize;
                        if row >= t.length() - 1 {
                            out.violate("C14/step/clk-beyond-trace", format!("reported clk {} beyond trace", s.clk));
                            continue;
                        }
                        let top = tc::stack_top(main, row);
                        let d = tc::depth(main, row) as usize;
                        let got: Vec<u64> = s.stack.iter().map(|x| x.as_int()).collect();
                        // overflow part: compared with the replay of the trace's own shifts (only for
                        // programs starting at depth 16, whose initial overflow is empty)
                        let mut overflow_ok = got.len() == d;
                        if let (Some(ov), true) = (&overflow, n_inputs <= 16) {
                            if row < ov.len() && got.len() >= 16 {
                                overflow_ok = got[16..] == ov[row].0[..];
                                if !overflow_ok {
                                    let next = ov.get(row + 1);
                                    if ov[row].1 > 0 {
                                        // inside a call/syscall the iterator also lists rows hidden from the callee (DESIGN F25b)
                                        out.violate("C14/step/overflow-in-callee-context", format!("clk {} (inside a call or syscall): iterator lists {} overflow items, the callee's visible overflow holds {}", s.clk, got.len() - 16, ov[row].0.len()));
                                    } else if next.map(|n| got[16..] == n.0[..]).unwrap_or(false) {
                                        // the overflow part is the one of the *next* row (DESIGN F25)
                                        out.violate("C14/step/overflow-one-clock-early", format!("clk {}: the overflow part of the reported stack ({} items) is the overflow content of row {} (trace depth at row {} is {})", s.clk, got.len() - 16, row + 1, row, d));
                                    } else {
                                        out.violate("C14/step/overflow", format!("clk {}: overflow part {:?} differs from the replayed overflow {:?} (and from the next row's)", s.clk, &got[16..], ov[row].0));
                                    }
                                } else {
                                    out.count("probe:overflow-compared");
                                }
                            }
                        } else if !overflow_ok {
                            out.count("probe:depth-mismatch-with-deep-inputs-not-judged");
                        }
                        if got.len() < 16 || got[..16] != top[..] {
                            out.violate("C14/step/stack-top", format!("clk {}: iterator stack top {:?} vs trace row {:?}", s.clk, &got[..got.len().min(16)], top));
                        }
                        if s.fmp.as_int() != tc::fmp(main, row) {
                            out.violate("C14/step/fmp", format!("clk {}: fmp {} vs trace {}", s.clk, s.fmp.as_int(), tc::fmp(main, row)));
                        }
                        if u32::from(s.ctx) as u64 != tc::ctx(main, row) {
                            out.violate("C14/step/ctx", format!("clk {}: ctx {} vs trace {}", s.clk, u32::from(s.ctx), tc::ctx(main, row)));
                        }
                        if tc::clk(main, row) != s.clk as u64 {
                            out.violate("C14/step/clk-column", format!("trace clk column at row {} is {}", row, tc::clk(main, row)));
                        }
                        if s.clk >= 1 {
                            let opc = opcode_at(main, row - 1);
                            if s.op.map(|o| o.op_code()) != Some(opc) {
                                out.violate("C14/step/op", format!("clk {}: iterator op {:?} vs decoder opcode {} at row {}", s.clk, s.op, opc, row - 1));
                            }
                        } else if s.op.is_some() {
                            out.violate("C14/step/op", "clk 0 reports an operation");
                        }
                        // memory: replay of the memory chiplet rows of this context with clk < s.clk
                        if let Some(rows) = &memrows {
                            let mut m: BTreeMap<u64, [u64; 4]> = BTreeMap::new();
                            for r in rows.iter().filter(|r| r.ctx == u32::from(s.ctx) as u64 && r.clk < s.clk as u64) {
                                m.insert(r.addr, r.v);
                            }
                            let got: BTreeMap<u64, [u64; 4]> = s.memory.iter().map(|(a, wd)| (*a, [wd[0].as_int(), wd[1].as_int(), wd[2].as_int(), wd[3].as_int()])).collect();
                            if got != m {
                                out.violate("C14/step/memory", format!("clk {} ctx {}: iterator memory has {} cells, replay of the memory chiplet rows before this clock has {} (or values differ)", s.clk, u32::from(s.ctx), got.len(), m.len()));
                            }
                            if !m.is_empty() {
                                out.count("probe:memory-compared-nonempty");
                            }
                        }
                        if d > 16 {
                            out.count("probe:deep-stack-state");
                        }
                    }
                }
            }
        }
        if fail_at.is_some() && ref_trace.is_none() {
            out.count("fault:host-fails-event");
            // after an execution error: running forward to the end must yield the error exactly once
            let mut extra_err = errors_seen;
            let mut guard = 0;
            loop {
                guard += 1;
                if guard > 200_000 {
                    out.violate("C14/step/no-end", "iterator does not terminate");
                    break;
                }
                match catch(|| it.next()) {
                    Ok(None) => break,
                    Ok(Some(Err(_))) => extra_err += 1,
                    Ok(Some(Ok(_))) => {}
                    Err((l, m)) => {
                        out.violate(format!("C14/step/panic/{}", l), m);
                        break;
                    }
                }
            }
            if extra_err != 1 && out.violations.is_empty() {
                out.violate("C14/step/error-count", format!("failing execution: the error was yielded {} times", extra_err));
            }
        }
        let _ = ExecutionError::CycleLimitExceeded(0);
        obs.u64(steps_checked);
        out.obs = obs.finish();
        out.nontrivial = refs.len() >= 2 && steps_checked > 0;
        out.count_n("probe:states-compared", steps_checked);
        out.sample = Some(json!({"source": spec.source, "configs": sc["configs"], "schedule_len": sched.len(), "states_compared": steps_checked, "outcome": refs.first().map(|r| r.class.clone())}));
        out
    }
    fn shrink_arrays(&self) -> Vec<&'static str> {
        vec!["/configs"]
    }
    fn shrink_candidates(&self, sc: &Value) -> Vec<Value> {
        // shorten the schedule
        let s = sc["schedule"].as_str().unwrap_or("");
        let mut v = vec![];
        if s.len() > 1 {
            for cut in [s.len() / 2, s.len() * 3 / 4, s.len() - 1] {
                let mut c = sc.clone();
                c["schedule"] = json!(s[..cut]);
                v.push(c);
            }
            let mut c = sc.clone();
            c["schedule"] = json!(s[1..]);
            v.push(c);
        }
        v
    }
    fn components_real(&self) -> Vec<&'static str> {
        vec!["assembler (debug and release mode)", "processor execute / execute_iter", "VmStateIterator", "trace growth (ensure_trace_capacity)", "decorator handling"]
    }
    fn components_simulated(&self) -> Vec<&'static str> {
        vec!["knob settings", "debugger client (next/back schedule)", "SimHost event log, optional host failure at the k-th event", "memory replay from the stored memory chiplet rows"]
    }
    fn assumptions(&self) -> Vec<&'static str> {
        vec!["memory visible at clock t = accesses with clk < t (chiplet rows)", "breakpoint instruction is never generated"]
    }
}
