//! One integer decides everything: splitmix64 -> xoshiro256**.

pub const DEFAULT_SEED: u64 = 20260923;
pub const P: u64 = 0xFFFF_FFFF_0000_0001; // Goldilocks modulus

pub fn splitmix64(x: &mut u64) -> u64 {
    *x = x.wrapping_add(0x9E37_79B9_7F4A_7C15);
    let mut z = *x;
    z = (z ^ (z >> 30)).wrapping_mul(0xBF58_476D_1CE4_E5B9);
    z = (z ^ (z >> 27)).wrapping_mul(0x94D0_49BB_1331_11EB);
    z ^ (z >> 31)
}

pub fn fnv64(s: &[u8]) -> u64 {
    let mut h: u64 = 0xcbf2_9ce4_8422_2325;
    for b in s {
        h ^= *b as u64;
        h = h.wrapping_mul(0x0000_0100_0000_01B3);
    }
    h
}

/// Incremental FNV-style hasher used for scenario digests and observation logs (deterministic,
/// independent of std's randomised hashers).
#[derive(Clone)]
pub struct Fnv(pub u64);
impl Default for Fnv {
    fn default() -> Self {
        Fnv(0xcbf2_9ce4_8422_2325)
    }
}
impl Fnv {
    pub fn new() -> Self {
        Self::default()
    }
    pub fn bytes(&mut self, b: &[u8]) -> &mut Self {
        for x in b {
            self.0 ^= *x as u64;
            self.0 = self.0.wrapping_mul(0x0000_0100_0000_01B3);
        }
        self
    }
    pub fn u64(&mut self, v: u64) -> &mut Self {
        self.bytes(&v.to_le_bytes())
    }
    pub fn str(&mut self, s: &str) -> &mut Self {
        self.bytes(s.as_bytes());
        self.bytes(&[0xff])
    }
    pub fn finish(&self) -> u64 {
        let mut x = self.0;
        splitmix64(&mut x)
    }
}

/// per-run seed: a pure function of (base seed, property id, run index)
pub fn run_seed(base: u64, prop: &str, index: u64) -> u64 {
    let mut x = base ^ fnv64(prop.as_bytes()) ^ index.wrapping_mul(0x9E37_79B9_7F4A_7C15);
    splitmix64(&mut x)
}

#[derive(Clone)]
pub struct Rng {
    s: [u64; 4],
}

impl Rng {
    pub fn new(seed: u64) -> Self {
        let mut x = seed;
        let s = [splitmix64(&mut x), splitmix64(&mut x), splitmix64(&mut x), splitmix64(&mut x)];
        Rng { s }
    }
    pub fn next(&mut self) -> u64 {
        let r = self.s[1].wrapping_mul(5).rotate_left(7).wrapping_mul(9);
        let t = self.s[1] << 17;
        self.s[2] ^= self.s[0];
        self.s[3] ^= self.s[1];
        self.s[1] ^= self.s[2];
        self.s[0] ^= self.s[3];
        self.s[2] ^= t;
        self.s[3] = self.s[3].rotate_left(45);
        r
    }
    /// uniform in [0, n)  (n > 0)
    pub fn below(&mut self, n: u64) -> u64 {
        debug_assert!(n > 0);
        ((self.next() as u128 * n as u128) >> 64) as u64
    }
    pub fn usize(&mut self, n: usize) -> usize {
        self.below(n as u64) as usize
    }
    /// uniform in [lo, hi] inclusive
    pub fn range(&mut self, lo: u64, hi: u64) -> u64 {
        lo + self.below(hi - lo + 1)
    }
    /// true with probability num/den
    pub fn chance(&mut self, num: u64, den: u64) -> bool {
        self.below(den) < num
    }
    pub fn pick<'a, T>(&mut self, xs: &'a [T]) -> &'a T {
        &xs[self.usize(xs.len())]
    }
    pub fn weighted(&mut self, ws: &[u32]) -> usize {
        let tot: u64 = ws.iter().map(|w| *w as u64).sum();
        let mut r = self.below(tot.max(1));
        for (i, w) in ws.iter().enumerate() {
            if r < *w as u64 {
                return i;
            }
            r -= *w as u64;
        }
        ws.len() - 1
    }
    pub fn shuffle<T>(&mut self, xs: &mut [T]) {
        for i in (1..xs.len()).rev() {
            let j = self.usize(i + 1);
            xs.swap(i, j);
        }
    }
    pub fn fork(&mut self) -> Rng {
        Rng::new(self.next())
    }

    /// a canonical field element, boundary biased
    pub fn felt(&mut self) -> u64 {
        match self.below(10) {
            0..=3 => *self.pick(&BOUNDARY),
            4..=5 => self.below(1 << 16),
            6 => self.below(1 << 32),
            _ => self.below(P),
        }
    }
    /// a u32 value, boundary biased
    pub fn u32v(&mut self) -> u64 {
        match self.below(10) {
            0..=3 => *self.pick(&U32_BOUNDARY),
            4..=5 => self.below(1 << 16),
            6 => 1u64 << self.below(32),
            _ => self.below(1 << 32),
        }
    }
}

pub const BOUNDARY: [u64; 16] = [
    0,
    1,
    2,
    3,
    0xFFFF,
    0x1_0000,
    0x7FFF_FFFF,
    0x8000_0000,
    0xFFFF_FFFF,
    0x1_0000_0000,
    0x1_0000_0001,
    0xFFFF_FFFF_0000_0000, // p-1
    0xFFFF_FFFE_FFFF_FFFF,
    0x8000_0000_0000_0000,
    0xFFFF_FFFF,
    (P - 1) / 2,
];
pub const U32_BOUNDARY: [u64; 12] =
    [0, 1, 2, 3, 0xFFFF, 0x1_0000, 0x7FFF_FFFF, 0x8000_0000, 0xFFFF_FFFF, 0xFFFF_FFFE, 0xFF, 0x100];
