//! Glue: scenario JSON -> assembler / processor calls.

use crate::framework::catch;
use crate::model::merkle::store_of;
use crate::world::host::{AdvFault, HostCfg, SimAdvice, SimHost};
use assembly::Assembler;
use processor::{AdviceInputs, ExecutionError, ExecutionOptions, ExecutionTrace, Program, StackInputs};
use serde_json::Value;
use vm_core::Felt;

#[derive(Clone, Debug, Default)]
pub struct ProgSpec {
    pub source: String,
    pub kernel: Option<String>,
    pub stack_inputs: Vec<u64>,
    pub advice_stack: Vec<u64>,
    pub trees: Vec<Vec<[u64; 4]>>,
    pub advice_map: Vec<([u64; 4], Vec<u64>)>,
    pub stdlib: bool,
}

pub fn u64s(v: &Value) -> Vec<u64> {
    v.as_array()
        .map(|a| a.iter().map(|x| x.as_str().and_then(|s| s.parse::<u64>().ok()).or(x.as_u64()).unwrap_or(0)).collect())
        .unwrap_or_default()
}
pub fn word_of(v: &Value) -> [u64; 4] {
    let x = u64s(v);
    [x.first().copied().unwrap_or(0), x.get(1).copied().unwrap_or(0), x.get(2).copied().unwrap_or(0), x.get(3).copied().unwrap_or(0)]
}

impl ProgSpec {
    pub fn from_json(v: &Value) -> ProgSpec {
        ProgSpec {
            source: v["source"].as_str().unwrap_or("begin push.1 drop end").to_string(),
            kernel: v["kernel"].as_str().map(|s| s.to_string()),
            stack_inputs: u64s(&v["stack_inputs"]),
            advice_stack: u64s(&v["advice_stack"]),
            trees: v["merkle_trees"].as_array().map(|ts| ts.iter().map(|t| t.as_array().map(|ls| ls.iter().map(word_of).collect()).unwrap_or_default()).collect()).unwrap_or_default(),
            advice_map: v["advice_map"]
                .as_array()
                .map(|es| es.iter().map(|e| (word_of(&e["key"]), u64s(&e["values"]))).collect())
                .unwrap_or_default(),
            stdlib: v["stdlib"].as_bool().unwrap_or(false),
        }
    }

    pub fn assembler(&self, debug_mode: bool) -> Result<Assembler, String> {
        let mut a = Assembler::default().with_debug_mode(debug_mode);
        if self.stdlib {
            a = a.with_library(&stdlib::StdLibrary::default()).map_err(|e| format!("{e}"))?;
        }
        if let Some(k) = &self.kernel {
            a = a.with_kernel(k).map_err(|e| format!("kernel: {e}"))?;
        }
        Ok(a)
    }

    /// Ok(program) | Err(message); a panic inside the assembler is reported as Err("PANIC ...")
    pub fn assemble(&self, debug_mode: bool) -> Result<Program, String> {
        match catch(|| self.assembler(debug_mode).and_then(|a| a.compile(&self.source).map_err(|e| format!("{e}")))) {
            Ok(r) => r,
            Err((loc, msg)) => Err(format!("PANIC {loc}: {msg}")),
        }
    }

    pub fn stack(&self) -> StackInputs {
        // stack_inputs[0] is the top of the stack; StackInputs::new takes bottom-first? (it
        // reverses internally: the last value given ends up on top) -> give them reversed
        let mut vals: Vec<Felt> = self.stack_inputs.iter().map(|v| Felt::new(*v)).collect();
        vals.reverse();
        StackInputs::new(vals)
    }

    pub fn advice(&self) -> AdviceInputs {
        crate::world::host::advice_inputs(&self.advice_stack, &self.advice_map, if self.trees.is_empty() { None } else { Some(store_of(&self.trees)) })
    }

    pub fn host(&self, faults: Vec<AdvFault>, cfg: HostCfg) -> SimHost {
        SimHost::new(SimAdvice::new(self.advice(), faults), cfg)
    }
}

pub enum Outcome {
    Ok(Box<ExecutionTrace>),
    Err(ExecutionError),
    Panic(String, String),
}

impl Outcome {
    pub fn class(&self) -> String {
        match self {
            Outcome::Ok(_) => "ok".into(),
            Outcome::Err(e) => format!("err:{}", err_name(e)),
            Outcome::Panic(l, _) => format!("panic:{}", l),
        }
    }
    pub fn is_ok(&self) -> bool {
        matches!(self, Outcome::Ok(_))
    }
}

pub fn err_name(e: &ExecutionError) -> String {
    let d = format!("{:?}", e);
    d.split(|c: char| !c.is_alphanumeric()).next().unwrap_or("?").to_string()
}

/// executes with the given host (kept by the caller), catching panics
pub fn run(program: &Program, stack: StackInputs, host: &mut SimHost, options: ExecutionOptions) -> Outcome {
    match catch(|| processor::execute(program, stack, &mut *host, options)) {
        Ok(Ok(t)) => Outcome::Ok(Box::new(t)),
        Ok(Err(e)) => Outcome::Err(e),
        Err((l, m)) => Outcome::Panic(l, m),
    }
}

pub fn options(max_cycles: Option<u32>, expected: u32, tracing: bool) -> ExecutionOptions {
    ExecutionOptions::new(max_cycles, expected, tracing).expect("valid options")
}
