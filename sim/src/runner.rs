//! Supervisor / worker processes, known-findings matching, shrinking, replay, evidence.

use crate::framework::*;
use crate::rng::{run_seed, Rng, DEFAULT_SEED};
use serde_json::{json, Map, Value};
use std::collections::{BTreeMap, BTreeSet, HashSet};
use std::io::{BufRead, BufReader, Write};
use std::process::{Child, Command, Stdio};
use std::sync::atomic::{AtomicBool, AtomicU64, Ordering};
use std::sync::{Arc, Mutex};
use std::time::{Duration, Instant};

pub fn verif_home() -> String {
    std::env::var("VERIF_HOME").unwrap_or_else(|_| "/verif".into())
}

// ------------------------------------------------------------------------------------------------
// worker

/// Executes one run in this process (generation + execution), catching panics of the harness /
/// code under test that the property did not classify itself.
pub fn run_one(prop: &dyn Prop, tier: Tier, base_seed: u64, index: u64) -> (Value, RunOut) {
    let seed = run_seed(base_seed, prop.id(), index);
    let mut rng = Rng::new(seed);
    let scenario = prop.generate(&mut rng, tier, index);
    let out = execute_guarded(prop, &scenario);
    (scenario, out)
}

pub fn execute_guarded(prop: &dyn Prop, scenario: &Value) -> RunOut {
    match catch(|| prop.execute(scenario)) {
        Ok(o) => o,
        Err((loc, msg)) => {
            let mut o = RunOut::default();
            o.digest = digest_value(scenario);
            if loc.starts_with("HARNESS/") {
                o.violate(format!("HARNESS-ERROR/panic/{}", loc), msg);
            } else {
                o.violate(format!("{}/panic/{}/{}", prop.id(), loc, msg_key(&msg, 60)), msg);
            }
            o
        }
    }
}

fn out_to_json(i: u64, o: &RunOut, with_sample: bool) -> Value {
    let mut m = Map::new();
    m.insert("i".into(), json!(i));
    m.insert("d".into(), json!(hex(o.digest)));
    m.insert("o".into(), json!(hex(o.obs)));
    m.insert("nt".into(), json!(o.nontrivial));
    m.insert("ev".into(), json!(o.evals.max(1)));
    m.insert("cy".into(), json!(o.cycles));
    if !o.sub_digests.is_empty() {
        m.insert("sub".into(), json!(o.sub_digests.iter().map(|d| hex(*d)).collect::<Vec<_>>()));
    }
    if !o.violations.is_empty() {
        m.insert(
            "viol".into(),
            Value::Array(o.violations.iter().map(|v| json!({"class": v.class, "detail": v.detail})).collect()),
        );
    }
    if with_sample {
        if let Some(s) = &o.sample {
            m.insert("sample".into(), s.clone());
        }
    }
    Value::Object(m)
}

/// worker main loop: reads "R <i>" lines, answers "S <i>", "D <json>"; counters flushed as "C <json>".
pub fn worker_main(prop: &dyn Prop, tier: Tier, base_seed: u64) -> i32 {
    // a runaway execution (e.g. a cycle limit that is not enforced) must not take the machine down:
    // cap the address space of a worker; an allocation failure aborts the worker, which the
    // supervisor reports for the run in progress
    if let Some(gb) = prop.worker_mem_limit_gb() {
        unsafe {
            let lim = libc::rlimit { rlim_cur: gb << 30, rlim_max: gb << 30 };
            libc::setrlimit(libc::RLIMIT_AS, &lim);
        }
    }
    let stdin = std::io::stdin();
    let stdout = std::io::stdout();
    let mut counters: BTreeMap<String, u64> = BTreeMap::new();
    let mut samples_sent = 0;
    let mut since_flush = 0;
    for line in stdin.lock().lines() {
        let line = match line {
            Ok(l) => l,
            Err(_) => break,
        };
        let mut it = line.split_whitespace();
        match it.next() {
            Some("R") => {
                let i: u64 = it.next().and_then(|s| s.parse().ok()).unwrap_or(0);
                {
                    let mut so = stdout.lock();
                    let _ = writeln!(so, "S {}", i);
                    let _ = so.flush();
                }
                let (_sc, out) = run_one(prop, tier, base_seed, i);
                for (k, v) in &out.counters {
                    *counters.entry(k.clone()).or_insert(0) += v;
                }
                let with_sample = samples_sent < 2 && out.sample.is_some();
                if with_sample {
                    samples_sent += 1;
                }
                since_flush += 1;
                let mut so = stdout.lock();
                if since_flush >= 32 {
                    let _ = writeln!(so, "C {}", json!(counters));
                    counters.clear();
                    since_flush = 0;
                }
                let _ = writeln!(so, "D {}", out_to_json(i, &out, with_sample));
                let _ = so.flush();
            }
            Some("Q") | None => break,
            _ => {}
        }
    }
    let mut so = stdout.lock();
    let _ = writeln!(so, "C {}", json!(counters));
    let _ = so.flush();
    0
}

// ------------------------------------------------------------------------------------------------
// supervisor

struct Agg {
    evaluations: u64,
    runs_done: u64,
    nontrivial_runs: u64,
    distinct: HashSet<u64>,
    cycles: u64,
    counters: BTreeMap<String, u64>,
    samples: Vec<Value>,
    obs: BTreeMap<u64, u64>,
    violations: Vec<(u64, Violation)>,
    harness_errors: Vec<String>,
}

struct WorkerProc {
    child: Child,
    stdin: std::process::ChildStdin,
    reader: BufReader<std::process::ChildStdout>,
}

fn spawn_worker(prop: &str, tier: Tier, seed: u64) -> std::io::Result<WorkerProc> {
    let exe = std::env::current_exe()?;
    let mut child = Command::new(exe)
        .arg("worker")
        .arg(prop)
        .arg(tier.name())
        .arg(seed.to_string())
        .stdin(Stdio::piped())
        .stdout(Stdio::piped())
        .stderr(Stdio::null())
        .spawn()?;
    let stdin = child.stdin.take().unwrap();
    let reader = BufReader::new(child.stdout.take().unwrap());
    Ok(WorkerProc { child, stdin, reader })
}

fn parse_hex(v: &Value) -> u64 {
    v.as_str().and_then(|s| u64::from_str_radix(s, 16).ok()).unwrap_or(0)
}

fn absorb_done(agg: &mut Agg, v: &Value) {
    let i = v["i"].as_u64().unwrap_or(0);
    agg.runs_done += 1;
    agg.evaluations += v["ev"].as_u64().unwrap_or(1);
    agg.cycles += v["cy"].as_u64().unwrap_or(0);
    agg.obs.insert(i, parse_hex(&v["o"]));
    if let Some(sub) = v["sub"].as_array() {
        for s in sub {
            agg.distinct.insert(parse_hex(s));
        }
        if v["nt"].as_bool().unwrap_or(false) {
            agg.nontrivial_runs += 1;
        }
    } else if v["nt"].as_bool().unwrap_or(false) {
        agg.nontrivial_runs += 1;
        agg.distinct.insert(parse_hex(&v["d"]));
    }
    if let Some(vs) = v["viol"].as_array() {
        for x in vs {
            agg.violations.push((
                i,
                Violation {
                    class: x["class"].as_str().unwrap_or("?").to_string(),
                    detail: x["detail"].as_str().unwrap_or("").to_string(),
                },
            ));
        }
    }
    if let Some(s) = v.get("sample") {
        if agg.samples.len() < 6 {
            agg.samples.push(s.clone());
        }
    }
}

fn absorb_counters(agg: &mut Agg, v: &Value) {
    if let Some(m) = v.as_object() {
        for (k, n) in m {
            *agg.counters.entry(k.clone()).or_insert(0) += n.as_u64().unwrap_or(0);
        }
    }
}

pub struct SupervisorCfg {
    pub tier: Tier,
    pub seed: u64,
    pub runs: Option<u64>,
    pub workers: Option<usize>,
    pub write_evidence: bool,
}

/// Runs indices through a pool of worker processes. Returns the aggregate.
fn run_pool(prop: &dyn Prop, tier: Tier, seed: u64, indices: Arc<Vec<u64>>, nworkers: usize, wall_cap: Duration, run_timeout: Duration) -> Agg {
    let agg = Arc::new(Mutex::new(Agg {
        evaluations: 0,
        runs_done: 0,
        nontrivial_runs: 0,
        distinct: HashSet::new(),
        cycles: 0,
        counters: BTreeMap::new(),
        samples: vec![],
        obs: BTreeMap::new(),
        violations: vec![],
        harness_errors: vec![],
    }));
    let next = Arc::new(AtomicU64::new(0));
    let stop = Arc::new(AtomicBool::new(false));
    let start = Instant::now();
    let id = prop.id().to_string();
    let mut handles = vec![];
    for _w in 0..nworkers {
        let agg = agg.clone();
        let next = next.clone();
        let stop = stop.clone();
        let indices = indices.clone();
        let id = id.clone();
        handles.push(std::thread::spawn(move || {
            let mut wp = match spawn_worker(&id, tier, seed) {
                Ok(w) => w,
                Err(e) => {
                    agg.lock().unwrap().harness_errors.push(format!("cannot spawn worker: {e}"));
                    return;
                }
            };
            loop {
                if stop.load(Ordering::Relaxed) || start.elapsed() > wall_cap {
                    break;
                }
                let k = next.fetch_add(1, Ordering::Relaxed) as usize;
                if k >= indices.len() {
                    break;
                }
                let i = indices[k];
                if writeln!(wp.stdin, "R {}", i).and_then(|_| wp.stdin.flush()).is_err() {
                    // worker died between runs: respawn and retry once
                    let _ = wp.child.wait();
                    match spawn_worker(&id, tier, seed) {
                        Ok(w) => wp = w,
                        Err(e) => {
                            agg.lock().unwrap().harness_errors.push(format!("cannot respawn worker: {e}"));
                            return;
                        }
                    }
                    let _ = writeln!(wp.stdin, "R {}", i).and_then(|_| wp.stdin.flush());
                }
                // watchdog for this run
                let done_flag = Arc::new(AtomicBool::new(false));
                let timed_out = Arc::new(AtomicBool::new(false));
                let pid = wp.child.id();
                {
                    let done_flag = done_flag.clone();
                    let timed_out = timed_out.clone();
                    std::thread::spawn(move || {
                        // the budget is CPU time consumed by the worker, not wall-clock time: a run
                        // that is merely starved by other load on the machine must not look like a
                        // hang (wall-clock backstop only for a worker that blocks without computing)
                        let t0 = Instant::now();
                        let cpu0 = proc_cpu_seconds(pid);
                        while !done_flag.load(Ordering::Relaxed) {
                            let cpu = (proc_cpu_seconds(pid) - cpu0).max(0.0);
                            if cpu > run_timeout.as_secs_f64() || t0.elapsed() > run_timeout * 40 {
                                timed_out.store(true, Ordering::Relaxed);
                                unsafe {
                                    libc::kill(pid as i32, libc::SIGKILL);
                                }
                                break;
                            }
                            std::thread::sleep(Duration::from_millis(50));
                        }
                    });
                }
                let mut finished = false;
                loop {
                    let mut line = String::new();
                    match wp.reader.read_line(&mut line) {
                        Ok(0) | Err(_) => break,
                        Ok(_) => {}
                    }
                    if let Some(rest) = line.strip_prefix("D ") {
                        if let Ok(v) = serde_json::from_str::<Value>(rest.trim()) {
                            absorb_done(&mut agg.lock().unwrap(), &v);
                        } else {
                            agg.lock().unwrap().harness_errors.push(format!("bad worker line for run {i}"));
                        }
                        finished = true;
                        break;
                    } else if let Some(rest) = line.strip_prefix("C ") {
                        if let Ok(v) = serde_json::from_str::<Value>(rest.trim()) {
                            absorb_counters(&mut agg.lock().unwrap(), &v);
                        }
                    }
                }
                done_flag.store(true, Ordering::Relaxed);
                if !finished {
                    // the worker process died during run i
                    let status = wp.child.wait().ok();
                    let how = if timed_out.load(Ordering::Relaxed) {
                        format!("hang/no-result-within-{}s", run_timeout.as_secs())
                    } else {
                        use std::os::unix::process::ExitStatusExt;
                        match status.and_then(|s| s.signal()) {
                            Some(sig) => format!("abort/signal-{}", sig),
                            None => format!("abort/exit-{}", status.and_then(|s| s.code()).unwrap_or(-1)),
                        }
                    };
                    {
                        let mut a = agg.lock().unwrap();
                        a.runs_done += 1;
                        a.evaluations += 1;
                        a.violations.push((i, Violation { class: format!("{}/{}", id, how), detail: "worker process died while executing this run".into() }));
                    }
                    match spawn_worker(&id, tier, seed) {
                        Ok(w) => wp = w,
                        Err(e) => {
                            agg.lock().unwrap().harness_errors.push(format!("cannot respawn worker: {e}"));
                            return;
                        }
                    }
                }
                // stop early once many different violation classes are on the table
                {
                    let a = agg.lock().unwrap();
                    // (known findings repeat in many runs: count classes, not occurrences)
                    if a.violations.len() > 2000 {
                        let classes: HashSet<&str> = a.violations.iter().map(|(_, v)| v.class.as_str()).collect();
                        if classes.len() > 60 {
                            stop.store(true, Ordering::Relaxed);
                        }
                    }
                }
            }
            let _ = writeln!(wp.stdin, "Q");
            let _ = wp.stdin.flush();
            drop(wp.stdin);
            // drain remaining counter lines
            loop {
                let mut line = String::new();
                match wp.reader.read_line(&mut line) {
                    Ok(0) | Err(_) => break,
                    Ok(_) => {}
                }
                if let Some(rest) = line.strip_prefix("C ") {
                    if let Ok(v) = serde_json::from_str::<Value>(rest.trim()) {
                        absorb_counters(&mut agg.lock().unwrap(), &v);
                    }
                }
            }
            let _ = wp.child.wait();
        }));
    }
    for h in handles {
        let _ = h.join();
    }
    Arc::try_unwrap(agg).ok().map(|m| m.into_inner().unwrap()).expect("agg")
}

// ------------------------------------------------------------------------------------------------
// known findings

#[derive(Clone, Debug)]
pub struct Finding {
    pub id: String,
    pub property: String,
    pub status: String,
    pub class: String,
    pub mode: String, // "exact" | "prefix"
    pub what: String,
}

pub fn load_findings() -> Vec<Finding> {
    let path = format!("{}/known_findings.json", verif_home());
    let txt = match std::fs::read_to_string(&path) {
        Ok(t) => t,
        Err(_) => return vec![],
    };
    let v: Value = match serde_json::from_str(&txt) {
        Ok(v) => v,
        Err(_) => return vec![],
    };
    let mut out = vec![];
    if let Some(a) = v["findings"].as_array() {
        for f in a {
            out.push(Finding {
                id: f["id"].as_str().unwrap_or("").into(),
                property: f["property"].as_str().unwrap_or("").into(),
                status: f["status"].as_str().unwrap_or("open").into(),
                class: f["class"].as_str().unwrap_or("").into(),
                mode: f["match"].as_str().unwrap_or("exact").into(),
                what: f["what"].as_str().unwrap_or("").into(),
            });
        }
    }
    out
}

pub fn match_finding<'a>(fs: &'a [Finding], prop: &str, class: &str) -> Option<&'a Finding> {
    fs.iter().find(|f| {
        f.status == "open"
            && f.property == prop
            && !f.class.is_empty()
            && if f.mode == "prefix" { class.starts_with(&f.class) } else { class == f.class }
    })
}

// ------------------------------------------------------------------------------------------------
// shrinking

fn pointer_array_len(v: &Value, ptr: &str) -> usize {
    v.pointer(ptr).and_then(|a| a.as_array()).map(|a| a.len()).unwrap_or(0)
}

fn still_fails(prop: &dyn Prop, sc: &Value, class: &str) -> bool {
    let out = execute_guarded(prop, sc);
    out.violations.iter().any(|v| v.class == class)
}

/// Greedy delta-debugging over the arrays the property declares shrinkable plus the property's own
/// structural candidates, while the same violation class persists.
/// Minimisation in a child process with a capped address space and a wall-clock limit: the code
/// under test may be broken in ways that exhaust memory or never return while candidates are
/// executed, and that must not take the supervisor with it. Any failure of the child falls back to
/// the un-minimised scenario.
pub fn shrink_isolated(prop: &dyn Prop, scenario: &Value, class: &str, budget: u64, scratch: &str) -> (Value, u64) {
    let base = format!("{}/.shrink-{}-{:x}", scratch, std::process::id(), fnv64(class.as_bytes()));
    let (inp, outp) = (format!("{}.in.json", base), format!("{}.out.json", base));
    let job = serde_json::json!({"property": prop.id(), "class": class, "budget": budget, "scenario": scenario});
    let fallback = (scenario.clone(), 0u64);
    if std::fs::write(&inp, serde_json::to_string(&job).unwrap_or_default()).is_err() {
        return fallback;
    }
    let _ = std::fs::remove_file(&outp);
    let exe = match std::env::current_exe() {
        Ok(e) => e,
        Err(_) => return fallback,
    };
    let child = Command::new(&exe).arg("shrinkjob").arg(&inp).arg(&outp).stdout(Stdio::null()).stderr(Stdio::null()).spawn();
    let mut res = fallback.clone();
    if let Ok(mut ch) = child {
        let t0 = Instant::now();
        loop {
            match ch.try_wait() {
                Ok(Some(_)) => break,
                Ok(None) => {
                    if t0.elapsed() > Duration::from_secs(1200) {
                        let _ = ch.kill();
                        let _ = ch.wait();
                        break;
                    }
                    std::thread::sleep(Duration::from_millis(100));
                }
                Err(_) => break,
            }
        }
        if let Ok(txt) = std::fs::read_to_string(&outp) {
            if let Ok(v) = serde_json::from_str::<Value>(&txt) {
                if v.get("scenario").is_some() {
                    res = (v["scenario"].clone(), v["steps"].as_u64().unwrap_or(0));
                }
            }
        }
    }
    let _ = std::fs::remove_file(&inp);
    let _ = std::fs::remove_file(&outp);
    res
}

fn fnv64(b: &[u8]) -> u64 {
    let mut h = 0xcbf29ce484222325u64;
    for x in b {
        h ^= *x as u64;
        h = h.wrapping_mul(0x100000001b3);
    }
    h
}

/// `vsim shrinkjob <in> <out>`: the child side of `shrink_isolated`
pub fn shrinkjob_main(props: &[&dyn Prop], inp: &str, outp: &str) -> i32 {
    unsafe {
        let lim = libc::rlimit { rlim_cur: 24 << 30, rlim_max: 24 << 30 };
        libc::setrlimit(libc::RLIMIT_AS, &lim);
    }
    let job: Value = match std::fs::read_to_string(inp).ok().and_then(|t| serde_json::from_str(&t).ok()) {
        Some(v) => v,
        None => return 2,
    };
    let pid = job["property"].as_str().unwrap_or("");
    let Some(prop) = props.iter().find(|p| p.id() == pid) else { return 2 };
    let (sc, steps) = shrink(*prop, &job["scenario"], job["class"].as_str().unwrap_or(""), job["budget"].as_u64().unwrap_or(0));
    let out = serde_json::json!({"scenario": sc, "steps": steps});
    match std::fs::write(outp, serde_json::to_string(&out).unwrap_or_default()) {
        Ok(_) => 0,
        Err(_) => 2,
    }
}

pub fn shrink(prop: &dyn Prop, scenario: &Value, class: &str, budget: u64) -> (Value, u64) {
    let mut best = scenario.clone();
    let mut steps = 0u64;
    let mut progress = true;
    while progress && steps < budget {
        progress = false;
        // property-specific candidates first (structural)
        for cand in prop.shrink_candidates(&best) {
            if steps >= budget {
                break;
            }
            steps += 1;
            if cand != best && still_fails(prop, &cand, class) {
                best = cand;
                progress = true;
                break;
            }
        }
        if progress {
            continue;
        }
        for ptr in prop.shrink_arrays() {
            let n = pointer_array_len(&best, ptr);
            if n == 0 {
                continue;
            }
            // try removing chunks, large to small (one pass per chunk size)
            let mut chunk = n.div_ceil(2).max(1);
            loop {
                let mut start = 0;
                while start < pointer_array_len(&best, ptr) && steps < budget {
                    let mut cand = best.clone();
                    if let Some(a) = cand.pointer_mut(ptr).and_then(|a| a.as_array_mut()) {
                        let end = (start + chunk).min(a.len());
                        a.drain(start..end);
                    }
                    steps += 1;
                    if still_fails(prop, &cand, class) {
                        best = cand;
                        progress = true;
                    } else {
                        start += chunk;
                    }
                }
                if chunk == 1 || steps >= budget {
                    break;
                }
                chunk /= 2;
            }
        }
    }
    (best, steps)
}

// ------------------------------------------------------------------------------------------------
// replay

/// CPU seconds (user + system, all threads) consumed so far by process `pid`; 0 if unknown
pub fn proc_cpu_seconds(pid: u32) -> f64 {
    let txt = match std::fs::read_to_string(format!("/proc/{}/stat", pid)) {
        Ok(t) => t,
        Err(_) => return 0.0,
    };
    // fields after the command name (which may contain spaces): state is field 3, utime 14, stime 15
    let rest = match txt.rfind(')') {
        Some(i) => &txt[i + 1..],
        None => return 0.0,
    };
    let f: Vec<&str> = rest.split_whitespace().collect();
    let ticks: f64 = f.get(11).and_then(|x| x.parse::<f64>().ok()).unwrap_or(0.0) + f.get(12).and_then(|x| x.parse::<f64>().ok()).unwrap_or(0.0);
    let hz = unsafe { libc::sysconf(libc::_SC_CLK_TCK) } as f64;
    ticks / if hz > 0.0 { hz } else { 100.0 }
}

pub fn replay_main(props: &[&dyn Prop], path: &str) -> i32 {
    let txt = match std::fs::read_to_string(path) {
        Ok(t) => t,
        Err(e) => {
            println!("HARNESS-ERROR: cannot read {path}: {e}");
            return 2;
        }
    };
    let doc: Value = match serde_json::from_str(&txt) {
        Ok(v) => v,
        Err(e) => {
            println!("HARNESS-ERROR: bad replay file: {e}");
            return 2;
        }
    };
    let pid = doc["property"].as_str().unwrap_or("");
    let prop = match props.iter().find(|p| p.id() == pid) {
        Some(p) => *p,
        None => {
            println!("HARNESS-ERROR: unknown property {pid}");
            return 2;
        }
    };
    let class = doc["class"].as_str().unwrap_or("");
    println!("replaying property={} class={} (base_seed={} run_index={})", pid, class, doc["base_seed"], doc["run_index"]);
    if class.ends_with("cross-process-nondeterminism") {
        let exe = std::env::current_exe().unwrap();
        let mut outs = vec![];
        for _ in 0..3 {
            let o = Command::new(&exe).arg("obs").arg(path).output();
            outs.push(o.map(|o| String::from_utf8_lossy(&o.stdout).to_string()).unwrap_or_default());
        }
        if outs.iter().any(|o| *o != outs[0]) {
            println!("REPRODUCED class={} detail=observation digests differ between processes: {:?}", class, outs);
            println!("VIOLATION property={} replay={}", pid, path);
            return 1;
        }
        println!("not reproduced: three processes gave the same observation digest");
        return 0;
    }
    if class.contains("/hang/") {
        // same criterion as the supervisor's watchdog: CPU seconds consumed by this process
        let limit = prop.run_timeout_s() as f64;
        let (pid_s, class_s, path_s) = (pid.to_string(), class.to_string(), path.to_string());
        std::thread::spawn(move || {
            let me = std::process::id();
            let cpu0 = proc_cpu_seconds(me);
            loop {
                if proc_cpu_seconds(me) - cpu0 > limit {
                    println!("REPRODUCED class={} detail=no result after {} CPU seconds", class_s, limit);
                    println!("VIOLATION property={} replay={}", pid_s, path_s);
                    std::process::exit(1);
                }
                std::thread::sleep(Duration::from_millis(100));
            }
        });
    }
    let out = execute_guarded(prop, &doc["scenario"]);
    let mut rc = 0;
    for v in &out.violations {
        let same = v.class == class;
        println!("{} class={} detail={}", if same { "REPRODUCED" } else { "OTHER-VIOLATION" }, v.class, v.detail);
        if same || class.is_empty() {
            rc = 1;
        }
    }
    if rc == 1 {
        println!("VIOLATION property={} replay={}", pid, path);
    } else if out.violations.is_empty() {
        println!("no violation on this tree");
    }
    rc
}

pub fn obs_main(props: &[&dyn Prop], path: &str) -> i32 {
    let doc: Value = serde_json::from_str(&std::fs::read_to_string(path).unwrap_or_default()).unwrap_or(Value::Null);
    let pid = doc["property"].as_str().unwrap_or("");
    if let Some(prop) = props.iter().find(|p| p.id() == pid) {
        let out = execute_guarded(*prop, &doc["scenario"]);
        println!("{}", hex(out.obs));
        0
    } else {
        2
    }
}

// ------------------------------------------------------------------------------------------------
// supervisor main

pub fn supervise(prop: &dyn Prop, cfg: &SupervisorCfg) -> i32 {
    let t0 = Instant::now();
    let id = prop.id();
    let tier = cfg.tier;
    let total = cfg.runs.unwrap_or_else(|| prop.runs(tier));
    let ncpu = std::thread::available_parallelism().map(|n| n.get()).unwrap_or(4);
    let nworkers = cfg.workers.unwrap_or(ncpu).min(prop.max_workers()).min(total.max(1) as usize).max(1);
    println!("SEED property={} VERIF_SEED={} tier={} runs={} workers={}", id, cfg.seed, tier.name(), total, nworkers);
    let indices: Arc<Vec<u64>> = Arc::new((0..total).collect());
    let wall_cap = Duration::from_secs(prop.wall_cap_s(tier));
    let run_timeout = Duration::from_secs(prop.run_timeout_s());
    let mut agg = run_pool(prop, tier, cfg.seed, indices, nworkers, wall_cap, run_timeout);
    let main_wall = t0.elapsed().as_secs_f64();

    // determinism re-check: a sample of the runs again, in other processes
    let mut recheck_runs = 0u64;
    let mut recheck_mismatch: Vec<u64> = vec![];
    {
        let done: Vec<u64> = agg.obs.keys().cloned().collect();
        let want = ((done.len() as u64) / 100).clamp(done.len().min(4) as u64, 40);
        let mut rr = Rng::new(cfg.seed ^ 0xD37E_2213);
        let mut pick: BTreeSet<u64> = BTreeSet::new();
        while (pick.len() as u64) < want && !done.is_empty() {
            pick.insert(done[rr.usize(done.len())]);
            if pick.len() == done.len() {
                break;
            }
        }
        if !pick.is_empty() {
            let idx: Arc<Vec<u64>> = Arc::new(pick.iter().cloned().collect());
            let again = run_pool(prop, tier, cfg.seed, idx, nworkers.min(4), wall_cap, run_timeout);
            for (i, o) in &again.obs {
                recheck_runs += 1;
                if agg.obs.get(i) != Some(o) {
                    recheck_mismatch.push(*i);
                }
            }
        }
    }

    let findings = load_findings();
    let mut rc = 0;
    let mut known_hit: BTreeMap<String, u64> = BTreeMap::new();
    let mut unknown: BTreeMap<String, (u64, String)> = BTreeMap::new(); // class -> (smallest index, detail)
    for (i, v) in &agg.violations {
        if v.class.starts_with("HARNESS-ERROR") {
            agg.harness_errors.push(format!("run {}: {} {}", i, v.class, v.detail));
            continue;
        }
        if let Some(f) = match_finding(&findings, id, &v.class) {
            *known_hit.entry(f.id.clone()).or_insert(0) += 1;
            continue;
        }
        let e = unknown.entry(v.class.clone()).or_insert((*i, v.detail.clone()));
        if *i < e.0 {
            *e = (*i, v.detail.clone());
        }
    }
    for f in &findings {
        if let Some(n) = known_hit.get(&f.id) {
            println!("KNOWN-FINDING: property={} {} [{} x{}; class {}]", id, f.what, f.id, n, f.class);
        }
    }
    if !recheck_mismatch.is_empty() {
        if prop.nondeterminism_is_violation() {
            let i = recheck_mismatch[0];
            unknown.entry(format!("{}/cross-process-nondeterminism", id)).or_insert((i, "the same scenario gave different observations in two processes".into()));
        } else {
            agg.harness_errors.push(format!("determinism re-check failed for runs {:?}", recheck_mismatch));
        }
    }

    // report unknown violations: shrink, write replay, confirm in a fresh process
    let replays_dir = format!("{}/replays", verif_home());
    let _ = std::fs::create_dir_all(&replays_dir);
    let mut reported = 0;
    let mut unreproduced_aborts = 0u64;
    for (class, (i, detail)) in &unknown {
        if reported >= 8 {
            rc = 1;
            println!("unminimised violation class={} run_index={} detail={}", class, i, one_line(detail, 200));
            continue;
        }
        reported += 1;
        let seed_i = run_seed(cfg.seed, id, *i);
        let mut rng = Rng::new(seed_i);
        let scenario = prop.generate(&mut rng, tier, *i);
        let is_abort = class.contains("/abort/") || class.contains("/hang/") || class.ends_with("cross-process-nondeterminism");
        let (min_sc, steps, minimised) = if is_abort {
            (scenario.clone(), 0, false)
        } else {
            let (s, n) = shrink_isolated(prop, &scenario, class, prop.shrink_budget(), &replays_dir);
            (s, n, true)
        };
        let fname = format!("{}/{}-{}-{}-{}.json", replays_dir, id, cfg.seed, i, sanitize(class));
        let doc = replay_doc(id, tier, cfg.seed, *i, class, detail, &min_sc, minimised, steps);
        let _ = std::fs::write(&fname, serde_json::to_string_pretty(&doc).unwrap());
        // confirm in a fresh process
        let exe = std::env::current_exe().unwrap();
        let st = Command::new(&exe).arg("replay").arg(&fname).stdout(Stdio::null()).stderr(Stdio::null()).status();
        let reproduced = match st {
            Ok(s) => s.code() == Some(1) || (is_abort && !s.success()),
            Err(_) => false,
        };
        if !reproduced && minimised {
            // fall back to the un-minimised scenario
            let doc = replay_doc(id, tier, cfg.seed, *i, class, detail, &scenario, false, 0);
            let _ = std::fs::write(&fname, serde_json::to_string_pretty(&doc).unwrap());
            let st = Command::new(&exe).arg("replay").arg(&fname).stdout(Stdio::null()).stderr(Stdio::null()).status();
            let ok = matches!(st, Ok(s) if s.code() == Some(1));
            if !ok {
                agg.harness_errors.push(format!("violation class {} of run {} did not reproduce from its replay file {}", class, i, fname));
                println!("UNREPRODUCED class={} run={} replay={}", class, i, fname);
                continue;
            }
        } else if !reproduced {
            if !is_abort {
                agg.harness_errors.push(format!("violation class {} of run {} did not reproduce", class, i));
                continue;
            }
            // a worker that died or exceeded its CPU budget, but whose scenario runs to completion in a
            // fresh process: caused by the environment (memory pressure, a killed process), not by the
            // code under test. Not reported as a violation.
            println!("NOTE: class={} run={} did not reproduce from {} in a fresh process; not reported", class, i, fname);
            unreproduced_aborts += 1;
            let _ = std::fs::remove_file(&fname);
            continue;
        }
        println!("violation class={} run_index={} run_seed={:#x} detail={}", class, i, seed_i, one_line(detail, 300));
        println!("VIOLATION property={} replay={}", id, fname);
        rc = 1;
    }
    let n_unknown = unknown.len() as u64 - unreproduced_aborts;

    if let Ok(path) = std::env::var("VSIM_DUMP_OBS") {
        // one line per run: index and observation digest (for the determinism self-test)
        let mut s = String::new();
        for (i, o) in &agg.obs {
            s.push_str(&format!("{} {}\n", i, hex(*o)));
        }
        let _ = std::fs::write(path, s);
    }
    let wall = t0.elapsed().as_secs_f64();
    if cfg.write_evidence {
        write_evidence(prop, cfg, &agg, total, nworkers, main_wall, wall, recheck_runs, recheck_mismatch.len() as u64, &known_hit, n_unknown);
    }
    println!(
        "DONE property={} runs={}/{} evaluations={} distinct_nontrivial={} cycles={} known_findings_hit={} violations={} wall={:.1}s",
        id,
        agg.runs_done,
        total,
        agg.evaluations,
        agg.distinct.len(),
        agg.cycles,
        known_hit.len(),
        n_unknown,
        wall
    );
    if !agg.harness_errors.is_empty() {
        for e in agg.harness_errors.iter().take(10) {
            println!("HARNESS-ERROR: {}", e);
        }
        if rc == 0 {
            return 2;
        }
    }
    if agg.runs_done == 0 {
        println!("HARNESS-ERROR: no runs completed");
        return 2;
    }
    rc
}

fn sanitize(s: &str) -> String {
    let t: String = s.chars().map(|c| if c.is_ascii_alphanumeric() { c } else { '_' }).collect();
    t.chars().take(80).collect()
}

fn one_line(s: &str, n: usize) -> String {
    let t: String = s.chars().map(|c| if c == '\n' { ' ' } else { c }).collect();
    t.chars().take(n).collect()
}

#[allow(clippy::too_many_arguments)]
fn write_evidence(prop: &dyn Prop, cfg: &SupervisorCfg, agg: &Agg, total: u64, nworkers: usize, main_wall: f64, wall: f64, recheck_runs: u64, recheck_mismatch: u64, known_hit: &BTreeMap<String, u64>, n_viol: u64) {
    let mut faults = Map::new();
    let mut probes = Map::new();
    let mut outcomes = Map::new();
    let mut reach: BTreeMap<String, u64> = BTreeMap::new();
    let mut other = Map::new();
    for (k, v) in &agg.counters {
        if let Some(r) = k.strip_prefix("fault:") {
            faults.insert(r.into(), json!(v));
        } else if let Some(r) = k.strip_prefix("probe:") {
            probes.insert(r.into(), json!(v));
        } else if let Some(r) = k.strip_prefix("outcome:") {
            outcomes.insert(r.into(), json!(v));
        } else if let Some(r) = k.strip_prefix("reach:") {
            reach.insert(r.into(), *v);
        } else {
            other.insert(k.clone(), json!(v));
        }
    }
    // reach: distinct keys per family ("family|key")
    let mut reach_fam: BTreeMap<String, u64> = BTreeMap::new();
    for k in reach.keys() {
        let fam = k.split('|').next().unwrap_or("").to_string();
        *reach_fam.entry(fam).or_insert(0) += 1;
    }
    let mut reach_least: Vec<(String, u64)> = reach.iter().map(|(k, v)| (k.clone(), *v)).collect();
    reach_least.sort_by_key(|x| x.1);
    reach_least.truncate(12);
    let samples = if agg.samples.is_empty() { vec![json!({"note": "no sample captured"})] } else { agg.samples.clone() };
    let ev = json!({
        "property_id": prop.id(),
        "tier": cfg.tier.name(),
        "seed": cfg.seed,
        "level": prop.level(),
        "coverage": {
            "evaluations": agg.evaluations,
            "distinct_nontrivial": agg.distinct.len(),
            "rule": prop.rule(),
            "samples": samples,
            "runs_planned": total,
            "runs_completed": agg.runs_done,
            "nontrivial_runs": agg.nontrivial_runs,
            "runs_per_hour": if main_wall > 0.0 { (agg.runs_done as f64 / main_wall * 3600.0).round() } else { 0.0 },
            "evaluations_per_hour": if main_wall > 0.0 { (agg.evaluations as f64 / main_wall * 3600.0).round() } else { 0.0 },
            "seeds": {"base_seed": cfg.seed, "first_run_index": 0, "last_run_index": total.saturating_sub(1), "per_run_seed": "splitmix64(base ^ fnv64(property id) ^ index*phi)"},
            "simulated_cycles": agg.cycles,
            "faults_fired": faults,
            "probes": probes,
            "outcomes": outcomes,
            "reach_distinct_keys_per_family": reach_fam,
            "reach_total_distinct_keys": reach.len(),
            "reach_least_hit": reach_least.iter().map(|(k, v)| json!({"key": k, "hits": v})).collect::<Vec<_>>(),
            "other_counters": other,
            "components": {"real": prop.components_real(), "simulated": prop.components_simulated()},
            "determinism_recheck": {"runs": recheck_runs, "mismatches": recheck_mismatch},
            "known_findings_hit": known_hit,
            "workers": nworkers,
            "exhaustive": false
        },
        "assumptions": prop.assumptions(),
        "wall_s": (wall * 10.0).round() / 10.0,
        "violations": n_viol
    });
    let dir = format!("{}/evidence", verif_home());
    let _ = std::fs::create_dir_all(&dir);
    let path = format!("{}/{}.json", dir, prop.id());
    let tmp = format!("{}.tmp", path);
    if std::fs::write(&tmp, serde_json::to_string_pretty(&ev).unwrap()).is_ok() {
        let _ = std::fs::rename(&tmp, &path);
    }
}

pub fn parse_seed() -> u64 {
    std::env::var("VERIF_SEED").ok().and_then(|s| s.trim().parse::<u64>().ok()).unwrap_or(DEFAULT_SEED)
}
