//! C03 — honest execution traces satisfy the entire AIR (step monitor; fault-free leg of seam S8).

use crate::framework::*;
use crate::gen::pop;
use crate::model::air_monitor::{challenges_from, opcode_at, Monitor, Quad};
use crate::model::opnames::op_name;
use crate::rng::{Fnv, Rng};
use crate::world::host::HostCfg;
use crate::world::vm::{self, Outcome, ProgSpec};
use miden_air::trace::{stack::B0_COL_IDX, STACK_TRACE_OFFSET};
use serde_json::{json, Value};
use vm_core::StarkField;
use winter_prover::Trace;

pub struct C03;

pub fn trace_digest(main: &processor::ColMatrix<vm_core::Felt>) -> u64 {
    let mut h = Fnv::new();
    for c in 0..main.num_cols() {
        for x in main.get_column(c) {
            h.u64(x.as_int());
        }
    }
    h.finish()
}

impl Prop for C03 {
    fn id(&self) -> &'static str {
        "C03"
    }
    fn level(&self) -> &'static str {
        "exploration"
    }
    fn runs(&self, tier: Tier) -> u64 {
        match tier {
            Tier::Quick => 3000,
            Tier::Thorough => 150_000,
        }
    }
    fn rule(&self) -> &'static str {
        "one run = one generated program (G_all swarm; 1 run in 12: standard-library procedures - SHA-256, BLAKE3, Keccak, u64, u256, memcopy - on random operands; 1 run in 10: a program searched so that its cycles, range-checker rows or chiplet rows end exactly at, or one or two rows away from, a power of two) executed by the real processor against the honest simulated host; every main transition constraint is evaluated on every non-exempt row, every boundary assertion is checked, the auxiliary segment is built under seeded challenges and its transition constraints and assertions are checked, the trace-length law is recomputed, and the execution is repeated under a second expected-cycles hint (main segments must be identical). Non-trivial = execution succeeded (all checks ran); distinct = digest of (source, inputs, advice, knobs, challenges)."
    }
    fn generate(&self, rng: &mut Rng, _tier: Tier, _index: u64) -> Value {
        if rng.chance(1, 12) {
            // standard-library procedures on random operands
            return pop::stdlib_scenario(rng);
        }
        if rng.chance(1, 10) {
            // a component (cycles, range checker, chiplets) sized to end right at a power of two
            return crate::gen::boundary::scenario(rng);
        }
        pop::swarm_scenario(rng)
    }
    fn execute(&self, sc: &Value) -> RunOut {
        let mut out = RunOut::default();
        out.digest = digest_value(sc);
        let spec = ProgSpec::from_json(&sc["prog"]);
        let kn = &sc["knobs"];
        let program = match spec.assemble(kn["debug_asm"].as_bool().unwrap_or(false)) {
            Ok(p) => p,
            Err(e) => {
                out.count("outcome:assemble-failed");
                out.sample = Some(json!({"assemble_error": e}));
                return out;
            }
        };
        let e1 = kn["expected_cycles"].as_u64().unwrap_or(64) as u32;
        let e2 = kn["expected_cycles_2"].as_u64().unwrap_or(64) as u32;
        let tracing = kn["tracing"].as_bool().unwrap_or(false);
        let mut host = spec.host(vec![], HostCfg::default());
        let r = vm::run(&program, spec.stack(), &mut host, vm::options(None, e1, tracing));
        let mut trace = match r {
            Outcome::Ok(t) => t,
            other => {
                out.count(&format!("outcome:exec-{}", other.class()));
                return out;
            }
        };
        out.nontrivial = true;
        let len = trace.length();
        let summary = *trace.trace_len_summary();
        out.cycles = summary.main_trace_len() as u64;
        let mon = Monitor::new(&trace, spec.stack());
        let main = trace.main_segment().clone();
        let mut obs = Fnv::new();
        obs.u64(trace_digest(&main));

        // --- every main transition constraint on every non-exempt row ---------------------------
        match catch(|| mon.check_main_transitions(&main)) {
            Ok(Ok(_)) => {}
            Ok(Err(f)) => out.violate(
                format!("C03/main-transition/{}/c{}", op_name(f.opcode), f.index),
                format!("transition constraint #{} is non-zero on row {} (operation {}), trace length {}", f.index, f.row, op_name(f.opcode), len),
            ),
            Err((l, m)) => out.violate(format!("C03/panic/{}", l), m),
        }
        match catch(|| mon.check_main_assertions(&main)) {
            Ok(Ok(_)) => {}
            Ok(Err(f)) => out.violate(format!("C03/main-assertion/col{}", f.index % 1000), format!("boundary assertion #{} on column {} fails at step {}", f.index / 1000, f.index % 1000, f.row)),
            Err((l, m)) => out.violate(format!("C03/panic/{}", l), m),
        }
        // --- auxiliary segment under the challenger's elements --------------------------------
        let ch: Vec<Quad> = challenges_from(&vm::u64s(&sc["challenges"]));
        match catch(|| trace.build_aux_segment(&[], &ch)) {
            Ok(Some(aux)) => {
                match catch(|| mon.check_aux(&main, &aux, &ch)) {
                    Ok(Ok(_)) => {}
                    Ok(Err(f)) => out.violate(
                        format!("C03/{}/{}", f.what, if f.what == "aux-transition" { format!("{}/c{}", op_name(f.opcode), f.index) } else { format!("col{}", f.index % 1000) }),
                        format!("{} #{} fails at row {} (trace length {})", f.what, f.index, f.row, len),
                    ),
                    Err((l, m)) => out.violate(format!("C03/panic/{}", l), m),
                }
            }
            Ok(None) => out.violate("C03/aux/not-built", "build_aux_segment returned None"),
            Err((l, m)) => out.violate(format!("C03/aux-build-panic/{}", l), m),
        }
        // --- trace length law -------------------------------------------------------------------
        // the main segments need one row beyond the executed cycles: the final-state (first HALT) row
        // ... and the chiplets one row beyond their own rows (the last memory row sends its range
        // checks one row later); the sum is recomputed here, not taken from ChipletsLengths::trace_len
        let cl = summary.chiplets_trace_len();
        let chiplet_rows = cl.hash_chiplet_len() + cl.bitwise_chiplet_len() + cl.memory_chiplet_len() + cl.kernel_rom_len();
        let need = (summary.main_trace_len() + 1).max(summary.range_trace_len()).max(chiplet_rows + 1);
        for (what, l) in [("cycles", summary.main_trace_len() + 1), ("range", summary.range_trace_len()), ("chiplets", chiplet_rows + 1)] {
            if (l + 1).is_power_of_two() && l + 1 == len {
                out.count(&format!("probe:component-fills-the-trace-exactly|{}", what));
            }
        }
        if !len.is_power_of_two() || len < 64 {
            out.violate("C03/length/not-power-of-two-or-below-64", format!("trace length {len}"));
        }
        if len < need + 1 {
            out.violate("C03/length/too-short", format!("trace length {len} cannot hold {need} rows plus the random row"));
        }
        if len > 64 && len / 2 >= need + 1 {
            out.violate("C03/length/not-minimal", format!("trace length {len} although {need}+1 rows fit in {}", len / 2));
        }
        if main.num_rows() != len {
            out.violate("C03/length/matrix-mismatch", format!("main segment has {} rows, trace length {}", main.num_rows(), len));
        }
        let regime = if summary.main_trace_len() >= summary.range_trace_len() && summary.main_trace_len() >= summary.chiplets_trace_len().trace_len() {
            "main"
        } else if summary.range_trace_len() >= summary.chiplets_trace_len().trace_len() {
            "range"
        } else {
            "chiplets"
        };
        out.count(&format!("reach:regime|{}", regime));
        out.count(&format!("reach:len|{}", len));
        // --- reach: (operation, depth regime) -----------------------------------------------------
        let n = summary.main_trace_len();
        let mut seen = std::collections::BTreeSet::new();
        for r in 0..n.min(len - 1) {
            let opc = opcode_at(&main, r);
            let deep = main.get(STACK_TRACE_OFFSET + B0_COL_IDX, r).as_int() > 16;
            seen.insert((opc, deep));
        }
        for (opc, deep) in seen {
            out.count(&format!("reach:op|{}|{}", op_name(opc), if deep { "deep" } else { "d16" }));
        }
        // --- independence of the capacity hint --------------------------------------------------
        if e2 != e1 {
            let mut host2 = spec.host(vec![], HostCfg::default());
            match vm::run(&program, spec.stack(), &mut host2, vm::options(None, e2, tracing)) {
                Outcome::Ok(t2) => {
                    let d2 = trace_digest(t2.main_segment());
                    if t2.length() != len || d2 != trace_digest(&main) {
                        out.violate("C03/capacity-hint/trace-differs", format!("expected_cycles {e1} vs {e2}: trace length {} vs {}, main segments differ", len, t2.length()));
                    }
                    if (e1.max(e2) as usize) > n {
                        out.count("probe:hint-larger-than-need");
                    }
                    if (e1.min(e2).max(64) as usize) * 2 < n {
                        out.count("probe:trace-reallocated-twice");
                    }
                }
                other => out.violate(format!("C03/capacity-hint/{}", other.class()), format!("execution succeeded with expected_cycles {e1} but ended with {} under {e2}", other.class())),
            }
        }
        out.obs = obs.finish();
        out.sample = Some(json!({"source": spec.source, "kernel": spec.kernel, "stack_inputs": spec.stack_inputs.len(), "advice": spec.advice_stack.len(), "trace_len": len, "cycles": n, "regime": regime, "knobs": kn}));
        out
    }
    fn shrink_candidates(&self, sc: &Value) -> Vec<Value> {
        crate::shrinksrc::prog_candidates(sc, "/prog")
    }
    fn components_real(&self) -> Vec<&'static str> {
        vec!["assembler", "processor (all trace builders, aux column builders)", "ProcessorAir (evaluate_transition, evaluate_aux_transition, assertions)", "MemAdviceProvider"]
    }
    fn components_simulated(&self) -> Vec<&'static str> {
        vec!["host (honest SimHost)", "challenger (seeded aux randomness)", "capacity-hint knob", "program generator", "constraint evaluation loop (own loop over winter-air's EvaluationFrame)"]
    }
    fn assumptions(&self) -> Vec<&'static str> {
        vec!["challenges are drawn uniformly from non-degenerate elements", "the AIR implementation itself is the specification of 'satisfies the AIR' (C04 checks that it rejects deviations)"]
    }
}
