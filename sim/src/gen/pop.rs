//! The population of simulated executions shared by the trace monitors (C03, C12, C13) and by C14:
//! program + inputs + host content + knob values + challenger elements.

use crate::gen::prog::{generate, GenCfg};
use crate::rng::{Rng, P};
use serde_json::{json, Value};

pub const EXPECTED_CYCLES: [u64; 8] = [0, 64, 128, 512, 1 << 12, 1 << 14, 1 << 16, 1 << 17];

pub fn challenges(rng: &mut Rng) -> Vec<String> {
    // 16 extension-field elements = 32 base elements; degenerate challenges (0, repeated elements)
    // are not drawn: the protocol's challenge is uniformly random
    let mut v: Vec<u64> = vec![];
    while v.len() < 32 {
        let x = 2 + rng.below(P - 2);
        if !v.contains(&x) {
            v.push(x);
        }
    }
    v.iter().map(|x| x.to_string()).collect()
}

pub fn knobs(rng: &mut Rng) -> Value {
    json!({
        "expected_cycles": *rng.pick(&EXPECTED_CYCLES),
        "expected_cycles_2": *rng.pick(&EXPECTED_CYCLES),
        "tracing": rng.chance(1, 2),
        "debug_asm": rng.chance(1, 3),
    })
}

pub fn scenario(rng: &mut Rng, cfg: GenCfg) -> Value {
    let p = generate(rng, cfg);
    json!({"prog": p.to_json(), "knobs": knobs(rng), "challenges": challenges(rng)})
}

pub fn swarm_scenario(rng: &mut Rng) -> Value {
    let cfg = GenCfg::swarm(rng);
    scenario(rng, cfg)
}

/// A program made of standard-library procedures run on random operands (real-world code: long spans
/// of u32 operations, many locals, deep stacks), executed honestly. Returns a scenario like `scenario`.
pub fn stdlib_scenario(rng: &mut Rng) -> Value {
    let u32v = |rng: &mut Rng| 1 + rng.below((1u64 << 32) - 1);
    let mut inputs: Vec<u64> = vec![];
    let mut src = String::new();
    match rng.below(8) {
        0 => {
            let (m, f, n) = *rng.pick(&[("sha256", "hash_2to1", 16), ("sha256", "hash_1to1", 8), ("blake3", "hash_2to1", 16), ("blake3", "hash_1to1", 8), ("keccak256", "hash", 16)]);
            inputs = (0..n).map(|_| u32v(rng)).collect();
            src = format!("use.std::crypto::hashes::{m}\n\nbegin\n    exec.{m}::{f}\nend\n");
        }
        1 => {
            let f = *rng.pick(&["add_unsafe", "sub_unsafe", "mul_unsafe", "and", "or", "xor"]);
            inputs = (0..16).map(|_| u32v(rng)).collect();
            src = format!("use.std::math::u256\n\nbegin\n    exec.u256::{f}\nend\n");
        }
        2 => {
            let n = rng.range(1, 12);
            src = "use.std::mem\n\nbegin\n".to_string();
            for i in 0..n {
                src.push_str(&format!("    push.{}.{}.{}.{} mem_storew.{} dropw\n", rng.felt(), rng.felt(), rng.felt(), rng.felt(), 100 + i));
            }
            src.push_str(&format!("    push.{}.100.{} exec.mem::memcopy\nend\n", 5000 + rng.below(100), n));
        }
        _ => {
            // a sequence of u64 operations: (name, u32 operands incl. a shift amount marked by 's', results)
            let ops: [(&str, &str, usize); 22] = [
                ("wrapping_add", "uuuu", 2), ("overflowing_add", "uuuu", 3), ("wrapping_sub", "uuuu", 2), ("overflowing_sub", "uuuu", 3), ("wrapping_mul", "uuuu", 2), ("overflowing_mul", "uuuu", 4),
                ("lt", "uuuu", 1), ("gte", "uuuu", 1), ("eq", "uuuu", 1), ("min", "uuuu", 2), ("max", "uuuu", 2), ("div", "uuuu", 2), ("mod", "uuuu", 2), ("divmod", "uuuu", 4),
                ("and", "uuuu", 2), ("xor", "uuuu", 2), ("shl", "uus", 2), ("shr", "uus", 2), ("rotl", "uus", 2), ("rotr", "uus", 2), ("clz", "uu", 1), ("cto", "uu", 1),
            ];
            src = "use.std::math::u64\n\nbegin\n".to_string();
            for _ in 0..rng.range(2, 10) {
                let (name, args, nout) = *rng.pick(&ops);
                src.push_str("   ");
                for a in args.bytes() {
                    let v = if a == b's' { rng.below(64) } else { u32v(rng) };
                    src.push_str(&format!(" push.{}", v));
                }
                src.push_str(&format!(" exec.u64::{}", name));
                for _ in 0..nout {
                    src.push_str(" drop");
                }
                src.push('\n');
            }
            src.push_str("end\n");
        }
    }
    json!({"prog": {"source": src, "stdlib": true, "stack_inputs": inputs.iter().map(|v| v.to_string()).collect::<Vec<_>>(), "advice_stack": []}, "knobs": knobs(rng), "challenges": challenges(rng)})
}
