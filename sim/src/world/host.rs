//! SimHost / SimAdvice: the simulated, possibly Byzantine, host (seam S1).
//!
//! `SimAdvice` implements `AdviceProvider` by delegating every *primitive* to a real
//! `MemAdviceProvider` and applying the scenario's fault plan at the primitive level; the repo's own
//! injector logic (default trait methods) runs unmodified on top of it. `SimHost` numbers every
//! callback with a global event sequence number and records the host event log.

use crate::rng::Fnv;
use processor::crypto::{MerklePath, MerkleStore, NodeIndex, RpoDigest};
use processor::{
    AdviceExtractor, AdviceInjector, AdviceInputs, AdviceProvider, AdviceSource, ContextId, ExecutionError, Host, HostResponse, MemAdviceProvider, ProcessState,
};
use serde_json::{json, Value};
use std::borrow::Borrow;
use std::cell::{Cell, RefCell};
use std::collections::BTreeMap;
use vm_core::{Felt, SignatureKind, StarkField, Word, ZERO};

pub fn w(v: [u64; 4]) -> Word {
    [Felt::new(v[0]), Felt::new(v[1]), Felt::new(v[2]), Felt::new(v[3])]
}
pub fn wi(v: &Word) -> [u64; 4] {
    [v[0].as_int(), v[1].as_int(), v[2].as_int(), v[3].as_int()]
}

/// One planned fault: applies to the `nth` call (0-based) of primitive `prim`.
#[derive(Clone, Debug, Default)]
pub struct AdvFault {
    pub prim: String,
    pub nth: u64,
    /// "set" (a = value, b = element position for words), "add" (a = delta), "replay" (previous answer),
    /// "drop" (discard one element first), "err", "swap" (a,b = positions), "reverse",
    /// paths: "flip_sibling" (a = level), "truncate", "extend", "other_index" (a = index), "other_depth" (a = depth),
    /// nodes: "other_node" (a = depth, b = index), map: "lose", "corrupt" (a = position, b = value)
    pub kind: String,
    pub a: u64,
    pub b: u64,
}

impl AdvFault {
    pub fn to_json(&self) -> Value {
        json!({"prim": self.prim, "nth": self.nth, "kind": self.kind, "a": self.a.to_string(), "b": self.b.to_string()})
    }
    pub fn from_json(v: &Value) -> AdvFault {
        AdvFault {
            prim: v["prim"].as_str().unwrap_or("").into(),
            nth: v["nth"].as_u64().unwrap_or(0),
            kind: v["kind"].as_str().unwrap_or("").into(),
            a: v["a"].as_str().and_then(|s| s.parse().ok()).or(v["a"].as_u64()).unwrap_or(0),
            b: v["b"].as_str().and_then(|s| s.parse().ok()).or(v["b"].as_u64()).unwrap_or(0),
        }
    }
}

pub struct SimAdvice {
    pub inner: MemAdviceProvider,
    pub faults: Vec<AdvFault>,
    counts: RefCell<BTreeMap<&'static str, u64>>,
    pub fired: RefCell<Vec<String>>,
    last_elem: Cell<u64>,
    /// clock of the VM request being served (set by SimHost; some primitives get no process handle)
    pub cur_clk: Cell<u32>,
    /// tampered advice-map answers must outlive the call (the trait returns a reference)
    alt_values: RefCell<Vec<Box<[Felt]>>>,
    /// number of primitive requests by kind (dry-run statistics for fault placement)
    pub request_log: RefCell<Vec<(&'static str, u32)>>,
}

impl SimAdvice {
    pub fn new(inputs: AdviceInputs, faults: Vec<AdvFault>) -> Self {
        SimAdvice {
            inner: MemAdviceProvider::from(inputs),
            faults,
            counts: RefCell::new(BTreeMap::new()),
            fired: RefCell::new(vec![]),
            last_elem: Cell::new(0),
            cur_clk: Cell::new(0),
            alt_values: RefCell::new(vec![]),
            request_log: RefCell::new(vec![]),
        }
    }
    pub fn from_provider(inner: MemAdviceProvider, faults: Vec<AdvFault>) -> Self {
        SimAdvice {
            inner,
            faults,
            counts: RefCell::new(BTreeMap::new()),
            fired: RefCell::new(vec![]),
            last_elem: Cell::new(0),
            cur_clk: Cell::new(0),
            alt_values: RefCell::new(vec![]),
            request_log: RefCell::new(vec![]),
        }
    }

    /// registers the call and returns the fault planned for it, if any
    fn tick(&self, prim: &'static str, clk: u32) -> Option<AdvFault> {
        let mut c = self.counts.borrow_mut();
        let n = c.entry(prim).or_insert(0);
        let cur = *n;
        *n += 1;
        let clk = if clk == 0 { self.cur_clk.get() } else { clk };
        self.request_log.borrow_mut().push((prim, clk));
        let f = self.faults.iter().find(|f| f.prim == prim && f.nth == cur).cloned();
        if let Some(f) = &f {
            self.fired.borrow_mut().push(format!("{}:{}", prim, f.kind));
        }
        f
    }
    pub fn request_counts(&self) -> BTreeMap<&'static str, u64> {
        self.counts.borrow().clone()
    }
}

fn host_err(clk: u32) -> ExecutionError {
    ExecutionError::AdviceStackReadFailed(clk)
}

impl AdviceProvider for SimAdvice {
    fn pop_stack<S: ProcessState>(&mut self, process: &S) -> Result<Felt, ExecutionError> {
        let f = self.tick("pop_stack", process.clk());
        if let Some(f) = &f {
            match f.kind.as_str() {
                "err" => return Err(host_err(process.clk())),
                "drop" => {
                    let _ = self.inner.pop_stack(process);
                }
                _ => {}
            }
        }
        let v = self.inner.pop_stack(process)?;
        let mut out = v;
        if let Some(f) = &f {
            match f.kind.as_str() {
                "set" => out = Felt::new(f.a),
                "add" => out = v + Felt::new(f.a),
                "replay" => out = Felt::new(self.last_elem.get()),
                _ => {}
            }
        }
        self.last_elem.set(v.as_int());
        Ok(out)
    }

    fn pop_stack_word<S: ProcessState>(&mut self, process: &S) -> Result<Word, ExecutionError> {
        let f = self.tick("pop_stack_word", process.clk());
        if let Some(f) = &f {
            match f.kind.as_str() {
                "err" => return Err(host_err(process.clk())),
                "drop" => {
                    let _ = self.inner.pop_stack(process);
                }
                _ => {}
            }
        }
        let mut v = self.inner.pop_stack_word(process)?;
        if let Some(f) = &f {
            match f.kind.as_str() {
                "set" => v[(f.b % 4) as usize] = Felt::new(f.a),
                "add" => v[(f.b % 4) as usize] += Felt::new(f.a),
                "swap" => v.swap((f.a % 4) as usize, (f.b % 4) as usize),
                "reverse" => v.reverse(),
                _ => {}
            }
        }
        Ok(v)
    }

    fn pop_stack_dword<S: ProcessState>(&mut self, process: &S) -> Result<[Word; 2], ExecutionError> {
        let f = self.tick("pop_stack_dword", process.clk());
        if let Some(f) = &f {
            match f.kind.as_str() {
                "err" => return Err(host_err(process.clk())),
                "drop" => {
                    let _ = self.inner.pop_stack(process);
                }
                _ => {}
            }
        }
        let mut v = self.inner.pop_stack_dword(process)?;
        if let Some(f) = &f {
            let pos = (f.b % 8) as usize;
            match f.kind.as_str() {
                "set" => v[pos / 4][pos % 4] = Felt::new(f.a),
                "add" => v[pos / 4][pos % 4] += Felt::new(f.a),
                "swap" => v.swap(0, 1),
                "reverse" => {
                    v[0].reverse();
                    v[1].reverse();
                }
                _ => {}
            }
        }
        Ok(v)
    }

    fn push_stack(&mut self, source: AdviceSource) -> Result<(), ExecutionError> {
        let prim: &'static str = match source {
            AdviceSource::Value(_) => "push_value",
            AdviceSource::Word(_) => "push_word",
            AdviceSource::Map { .. } => "push_map",
        };
        let f = self.tick(prim, 0);
        let mut src = source;
        if let Some(f) = &f {
            match (f.kind.as_str(), &mut src) {
                ("err", _) => return Err(ExecutionError::AdviceStackReadFailed(0)),
                ("drop", _) => return Ok(()), // the host "forgets" to push
                ("set", AdviceSource::Value(v)) => *v = Felt::new(f.a),
                ("add", AdviceSource::Value(v)) => *v += Felt::new(f.a),
                ("set", AdviceSource::Word(wd)) => wd[(f.b % 4) as usize] = Felt::new(f.a),
                ("add", AdviceSource::Word(wd)) => wd[(f.b % 4) as usize] += Felt::new(f.a),
                ("reverse", AdviceSource::Word(wd)) => wd.reverse(),
                ("swap", AdviceSource::Word(wd)) => wd.swap((f.a % 4) as usize, (f.b % 4) as usize),
                ("set", AdviceSource::Map { key, include_len }) | ("corrupt", AdviceSource::Map { key, include_len }) => {
                    // push a corrupted copy of the mapped values
                    let vals = self.inner.get_mapped_values(&RpoDigest::from(*key)).map(|v| v.to_vec());
                    if let Some(mut vals) = vals {
                        if !vals.is_empty() {
                            let p = (f.b as usize) % vals.len();
                            vals[p] = Felt::new(f.a);
                        }
                        let n = vals.len();
                        for v in vals.into_iter().rev() {
                            self.inner.push_stack(AdviceSource::Value(v))?;
                        }
                        if *include_len {
                            self.inner.push_stack(AdviceSource::Value(Felt::new(n as u64)))?;
                        }
                        return Ok(());
                    }
                }
                ("lose", AdviceSource::Map { key, .. }) => {
                    return Err(ExecutionError::AdviceMapKeyNotFound(*key));
                }
                _ => {}
            }
        }
        self.inner.push_stack(src)
    }

    fn get_mapped_values(&self, key: &RpoDigest) -> Option<&[Felt]> {
        let f = self.tick("get_mapped_values", 0);
        let honest = self.inner.get_mapped_values(key);
        if let Some(f) = &f {
            match f.kind.as_str() {
                "lose" | "err" => return None,
                "set" | "corrupt" => {
                    if let Some(h) = honest {
                        let mut v = h.to_vec();
                        if !v.is_empty() {
                            let p = (f.b as usize) % v.len();
                            v[p] = Felt::new(f.a);
                        }
                        let b: Box<[Felt]> = v.into_boxed_slice();
                        let ptr: *const [Felt] = &*b;
                        self.alt_values.borrow_mut().push(b);
                        // SAFETY: the boxed slice is owned by self.alt_values, never removed or
                        // mutated while self lives, so the reference is valid for &self's lifetime.
                        return Some(unsafe { &*ptr });
                    }
                }
                _ => {}
            }
        }
        honest
    }

    fn insert_into_map(&mut self, key: Word, values: Vec<Felt>) -> Result<(), ExecutionError> {
        let f = self.tick("insert_into_map", 0);
        if let Some(f) = &f {
            match f.kind.as_str() {
                "drop" | "lose" => return Ok(()),
                "err" => return Err(ExecutionError::AdviceMapKeyNotFound(key)),
                _ => {}
            }
        }
        self.inner.insert_into_map(key, values)
    }

    fn get_signature(&self, kind: SignatureKind, pub_key: Word, msg: Word) -> Result<Vec<Felt>, ExecutionError> {
        self.inner.get_signature(kind, pub_key, msg)
    }

    fn get_tree_node(&self, root: Word, depth: &Felt, index: &Felt) -> Result<Word, ExecutionError> {
        let f = self.tick("get_tree_node", 0);
        if let Some(f) = &f {
            match f.kind.as_str() {
                "err" => return Err(ExecutionError::AdviceStackReadFailed(0)),
                "other_node" => {
                    if let Ok(n) = self.inner.get_tree_node(root, &Felt::new(f.a), &Felt::new(f.b)) {
                        return Ok(n);
                    }
                }
                "set" => {
                    let mut n = self.inner.get_tree_node(root, depth, index)?;
                    n[(f.b % 4) as usize] = Felt::new(f.a);
                    return Ok(n);
                }
                _ => {}
            }
        }
        self.inner.get_tree_node(root, depth, index)
    }

    fn get_merkle_path(&self, root: Word, depth: &Felt, index: &Felt) -> Result<MerklePath, ExecutionError> {
        let f = self.tick("get_merkle_path", 0);
        if let Some(f) = &f {
            match f.kind.as_str() {
                "err" => return Err(ExecutionError::AdviceStackReadFailed(0)),
                "other_index" => {
                    if let Ok(p) = self.inner.get_merkle_path(root, depth, &Felt::new(f.a)) {
                        return Ok(p);
                    }
                }
                "other_depth" => {
                    if let Ok(p) = self.inner.get_merkle_path(root, &Felt::new(f.a), &Felt::new(f.b)) {
                        return Ok(p);
                    }
                }
                "flip_sibling" | "truncate" | "extend" => {
                    let p = self.inner.get_merkle_path(root, depth, index)?;
                    let mut nodes: Vec<RpoDigest> = p.nodes().to_vec();
                    match f.kind.as_str() {
                        "flip_sibling" => {
                            if !nodes.is_empty() {
                                let l = (f.a as usize) % nodes.len();
                                let mut wd: Word = nodes[l].into();
                                wd[(f.b % 4) as usize] += Felt::new(1);
                                nodes[l] = wd.into();
                            }
                        }
                        "truncate" => {
                            nodes.pop();
                        }
                        _ => nodes.push(RpoDigest::from(w([f.a, f.b, 0, 0]))),
                    }
                    return Ok(MerklePath::new(nodes));
                }
                _ => {}
            }
        }
        self.inner.get_merkle_path(root, depth, index)
    }

    fn get_leaf_depth(&self, root: Word, tree_depth: &Felt, index: &Felt) -> Result<u8, ExecutionError> {
        let f = self.tick("get_leaf_depth", 0);
        let r = self.inner.get_leaf_depth(root, tree_depth, index)?;
        if let Some(f) = &f {
            match f.kind.as_str() {
                "err" => return Err(ExecutionError::AdviceStackReadFailed(0)),
                "set" => return Ok(f.a as u8),
                "add" => return Ok(r.wrapping_add(f.a as u8)),
                _ => {}
            }
        }
        Ok(r)
    }

    fn find_lone_leaf(&self, root: Word, root_index: NodeIndex, tree_depth: u8) -> Result<Option<(NodeIndex, Word)>, ExecutionError> {
        let f = self.tick("find_lone_leaf", 0);
        let r = self.inner.find_lone_leaf(root, root_index, tree_depth)?;
        if let Some(f) = &f {
            match f.kind.as_str() {
                "err" => return Err(ExecutionError::AdviceStackReadFailed(0)),
                "lose" => return Ok(None),
                _ => {}
            }
        }
        Ok(r)
    }

    fn update_merkle_node(&mut self, root: Word, depth: &Felt, index: &Felt, value: Word) -> Result<(MerklePath, Word), ExecutionError> {
        let f = self.tick("update_merkle_node", 0);
        if let Some(f) = &f {
            match f.kind.as_str() {
                "err" => return Err(ExecutionError::AdviceStackReadFailed(0)),
                "other_index" => {
                    // the host updates a different leaf and reports that path
                    return self.inner.update_merkle_node(root, depth, &Felt::new(f.a), value);
                }
                "set" => {
                    let mut v2 = value;
                    v2[(f.b % 4) as usize] = Felt::new(f.a);
                    return self.inner.update_merkle_node(root, depth, index, v2);
                }
                "flip_sibling" => {
                    let (p, r) = self.inner.update_merkle_node(root, depth, index, value)?;
                    let mut nodes: Vec<RpoDigest> = p.nodes().to_vec();
                    if !nodes.is_empty() {
                        let l = (f.a as usize) % nodes.len();
                        let mut wd: Word = nodes[l].into();
                        wd[(f.b % 4) as usize] += Felt::new(1);
                        nodes[l] = wd.into();
                    }
                    return Ok((MerklePath::new(nodes), r));
                }
                "drop" => {
                    // the host reports the path of the old tree but does not store the update
                    let p = self.inner.get_merkle_path(root, depth, index)?;
                    return Ok((p, root));
                }
                _ => {}
            }
        }
        self.inner.update_merkle_node(root, depth, index, value)
    }

    fn merge_roots(&mut self, lhs: Word, rhs: Word) -> Result<Word, ExecutionError> {
        let f = self.tick("merge_roots", 0);
        if let Some(f) = &f {
            match f.kind.as_str() {
                "err" => return Err(ExecutionError::AdviceStackReadFailed(0)),
                "swap" => return self.inner.merge_roots(rhs, lhs),
                _ => {}
            }
        }
        self.inner.merge_roots(lhs, rhs)
    }

    fn get_store_subset<I, R>(&self, roots: I) -> MerkleStore
    where
        I: Iterator<Item = R>,
        R: Borrow<RpoDigest>,
    {
        self.inner.get_store_subset(roots)
    }
}

// ------------------------------------------------------------------------------------------------
// event log

pub const EV_EVENT: u8 = 1;
pub const EV_TRACE: u8 = 2;
pub const EV_DEBUG: u8 = 3;
pub const EV_ASSERT: u8 = 4;
pub const EV_GET: u8 = 5;
pub const EV_SET: u8 = 6;

#[derive(Clone, Debug, PartialEq, Eq)]
pub struct Event {
    pub seq: u64,
    pub kind: u8,
    pub id: u32,
    pub clk: u32,
    pub ctx: u32,
    pub fmp: u64,
    pub stack: Vec<u64>,
    /// (ctx, addr, word or None) probes taken at EV_EVENT points
    pub mem: Vec<(u32, u32, Option<[u64; 4]>)>,
}

impl Event {
    pub fn to_json(&self) -> Value {
        json!({"seq": self.seq, "kind": self.kind, "id": self.id, "clk": self.clk, "ctx": self.ctx, "fmp": self.fmp,
               "stack": self.stack.iter().map(|x| x.to_string()).collect::<Vec<_>>()})
    }
}

#[derive(Clone, Debug, Default)]
pub struct HostCfg {
    /// record the full stack state at emit/trace events (costly for deep stacks)
    pub snapshot_stack: bool,
    /// addresses probed (in the current context and in the root context) at every emit event
    pub probe_addrs: Vec<u32>,
    /// log advice get/set requests as events too
    pub log_requests: bool,
    /// the host fails the n-th emit event (0-based), if set
    pub fail_event_at: Option<u64>,
}

pub struct SimHost {
    pub adv: SimAdvice,
    pub cfg: HostCfg,
    pub log: Vec<Event>,
    pub seq: u64,
    pub n_events: u64,
}

impl SimHost {
    pub fn new(adv: SimAdvice, cfg: HostCfg) -> Self {
        SimHost { adv, cfg, log: vec![], seq: 0, n_events: 0 }
    }
    pub fn honest(inputs: AdviceInputs) -> Self {
        SimHost::new(SimAdvice::new(inputs, vec![]), HostCfg { snapshot_stack: true, ..Default::default() })
    }
    fn record<S: ProcessState>(&mut self, kind: u8, id: u32, process: &S, full: bool) {
        let stack = if full && self.cfg.snapshot_stack { process.get_stack_state().iter().map(|f| f.as_int()).collect() } else { vec![] };
        let mut mem = vec![];
        if kind == EV_EVENT {
            let ctx = process.ctx();
            for a in &self.cfg.probe_addrs {
                mem.push((u32::from(ctx), *a, process.get_mem_value(ctx, *a).map(|x| wi(&x))));
                if ctx != ContextId::root() {
                    mem.push((0, *a, process.get_mem_value(ContextId::root(), *a).map(|x| wi(&x))));
                }
            }
        }
        self.log.push(Event { seq: self.seq, kind, id, clk: process.clk(), ctx: u32::from(process.ctx()), fmp: process.fmp(), stack, mem });
        self.seq += 1;
    }
    pub fn log_digest(&self) -> u64 {
        log_digest(&self.log)
    }
}

pub fn log_digest(log: &[Event]) -> u64 {
    let mut h = Fnv::new();
    for e in log {
        h.u64(e.seq).u64(e.kind as u64).u64(e.id as u64).u64(e.clk as u64).u64(e.ctx as u64).u64(e.fmp);
        for s in &e.stack {
            h.u64(*s);
        }
        for (c, a, wd) in &e.mem {
            h.u64(*c as u64).u64(*a as u64);
            if let Some(wd) = wd {
                for x in wd {
                    h.u64(*x);
                }
            } else {
                h.u64(u64::MAX);
            }
        }
    }
    h.finish()
}

fn extractor_id(e: &AdviceExtractor) -> u32 {
    match e {
        AdviceExtractor::PopStack => 1,
        AdviceExtractor::PopStackWord => 2,
        AdviceExtractor::PopStackDWord => 3,
        AdviceExtractor::GetMerklePath => 4,
    }
}

impl Host for SimHost {
    fn get_advice<S: ProcessState>(&mut self, process: &S, extractor: AdviceExtractor) -> Result<HostResponse, ExecutionError> {
        if self.cfg.log_requests {
            self.record(EV_GET, extractor_id(&extractor), process, false);
        }
        self.adv.cur_clk.set(process.clk());
        self.adv.get_advice(process, &extractor)
    }

    fn set_advice<S: ProcessState>(&mut self, process: &S, injector: AdviceInjector) -> Result<HostResponse, ExecutionError> {
        if self.cfg.log_requests {
            self.record(EV_SET, 0, process, false);
        }
        self.adv.cur_clk.set(process.clk());
        self.adv.set_advice(process, &injector)
    }

    fn on_event<S: ProcessState>(&mut self, process: &S, event_id: u32) -> Result<HostResponse, ExecutionError> {
        self.record(EV_EVENT, event_id, process, true);
        let n = self.n_events;
        self.n_events += 1;
        if self.cfg.fail_event_at == Some(n) {
            return Err(ExecutionError::AdviceStackReadFailed(process.clk()));
        }
        Ok(HostResponse::None)
    }

    fn on_debug<S: ProcessState>(&mut self, process: &S, _options: &vm_core::DebugOptions) -> Result<HostResponse, ExecutionError> {
        self.record(EV_DEBUG, 0, process, true);
        Ok(HostResponse::None)
    }

    fn on_trace<S: ProcessState>(&mut self, process: &S, trace_id: u32) -> Result<HostResponse, ExecutionError> {
        self.record(EV_TRACE, trace_id, process, true);
        Ok(HostResponse::None)
    }

    fn on_assert_failed<S: ProcessState>(&mut self, process: &S, err_code: u32) -> ExecutionError {
        self.record(EV_ASSERT, err_code, process, false);
        ExecutionError::FailedAssertion { clk: process.clk(), err_code, err_msg: None }
    }
}

/// builds advice inputs from plain integers (canonical values only)
pub fn advice_inputs(stack: &[u64], map: &[([u64; 4], Vec<u64>)], store: Option<MerkleStore>) -> AdviceInputs {
    let mut a = AdviceInputs::default().with_stack(stack.iter().map(|v| Felt::new(*v)));
    a = a.with_map(map.iter().map(|(k, v)| (RpoDigest::from(w(*k)).into(), v.iter().map(|x| Felt::new(*x)).collect::<Vec<_>>())));
    if let Some(s) = store {
        a = a.with_merkle_store(s);
    }
    a
}

#[allow(dead_code)]
pub fn zero_word() -> Word {
    [ZERO; 4]
}
