//! Structural shrink candidates for scenarios that carry program source text: drop line ranges,
//! then single instructions; drop inputs. A candidate that no longer assembles simply does not
//! reproduce the violation class and is discarded by the shrinker.

use serde_json::{json, Value};

fn with_source(sc: &Value, ptr: &str, src: String) -> Value {
    let mut c = sc.clone();
    if let Some(v) = c.pointer_mut(ptr) {
        *v = json!(src);
    }
    c
}

pub fn source_candidates(sc: &Value, ptr: &str) -> Vec<Value> {
    let mut out = vec![];
    let src = match sc.pointer(ptr).and_then(|v| v.as_str()) {
        Some(s) => s.to_string(),
        None => return out,
    };
    let lines: Vec<&str> = src.lines().collect();
    let n = lines.len();
    // whole balanced blocks: from a line opening a block to its matching `end`
    let opens = |l: &str| {
        let t = l.trim();
        t.starts_with("if.") || t.starts_with("while.") || t.starts_with("repeat.") || t.starts_with("proc.") || t.starts_with("export.")
    };
    for i in 0..n {
        if opens(lines[i]) {
            let mut depth = 0i32;
            for j in i..n {
                let t = lines[j].trim();
                if opens(lines[j]) || t == "begin" {
                    depth += 1;
                }
                if t == "end" {
                    depth -= 1;
                    if depth == 0 {
                        let mut keep: Vec<&str> = lines[..i].to_vec();
                        // replace the block by its body (unwrap) or drop it
                        let mut dropped = keep.clone();
                        dropped.extend_from_slice(&lines[j + 1..]);
                        out.push(with_source(sc, ptr, dropped.join("\n")));
                        if !lines[i].trim().starts_with("proc.") && !lines[i].trim().starts_with("export.") {
                            let body: Vec<&str> = lines[i + 1..j].iter().filter(|l| l.trim() != "else").cloned().collect();
                            keep.extend(body);
                            keep.extend_from_slice(&lines[j + 1..]);
                            out.push(with_source(sc, ptr, keep.join("\n")));
                        }
                        break;
                    }
                }
            }
        }
    }
    // line ranges
    let mut chunk = n / 2;
    while chunk >= 1 {
        let mut i = 0;
        while i < n {
            let mut keep: Vec<&str> = lines[..i].to_vec();
            keep.extend_from_slice(&lines[(i + chunk).min(n)..]);
            out.push(with_source(sc, ptr, keep.join("\n")));
            i += chunk;
        }
        chunk /= 2;
    }
    // single instructions within a line (only when the program is already small)
    if src.len() < 6000 {
        for (li, l) in lines.iter().enumerate() {
            let toks: Vec<&str> = l.split_whitespace().collect();
            if toks.len() < 2 {
                continue;
            }
            let mut chunk = toks.len() / 2;
            while chunk >= 1 {
                let mut t = 0;
                while t < toks.len() {
                    let mut keep: Vec<&str> = toks[..t].to_vec();
                    keep.extend_from_slice(&toks[(t + chunk).min(toks.len())..]);
                    let mut nl: Vec<String> = lines.iter().map(|s| s.to_string()).collect();
                    nl[li] = format!("    {}", keep.join(" "));
                    out.push(with_source(sc, ptr, nl.join("\n")));
                    t += chunk;
                }
                chunk /= 2;
            }
        }
    }
    out
}

/// drop elements of an array of strings/values under `ptr` (halves, then singles)
pub fn array_candidates(sc: &Value, ptr: &str) -> Vec<Value> {
    let mut out = vec![];
    let n = sc.pointer(ptr).and_then(|v| v.as_array()).map(|a| a.len()).unwrap_or(0);
    if n == 0 {
        return out;
    }
    let mut c = sc.clone();
    if let Some(a) = c.pointer_mut(ptr).and_then(|v| v.as_array_mut()) {
        a.clear();
    }
    out.push(c);
    let mut c = sc.clone();
    if let Some(a) = c.pointer_mut(ptr).and_then(|v| v.as_array_mut()) {
        a.truncate(n / 2);
    }
    out.push(c);
    out
}

pub fn prog_candidates(sc: &Value, prog_ptr: &str) -> Vec<Value> {
    let mut v = source_candidates(sc, &format!("{}/source", prog_ptr));
    if sc.pointer(&format!("{}/kernel", prog_ptr)).map(|k| k.is_string()).unwrap_or(false) {
        v.extend(source_candidates(sc, &format!("{}/kernel", prog_ptr)));
    }
    v.extend(array_candidates(sc, &format!("{}/stack_inputs", prog_ptr)));
    v
}
