//! Boundary-directed scenarios: programs whose executed cycles, range-checker rows or chiplet rows
//! end exactly at (or one / two rows away from) a power of two, found by a measured search in
//! phase 1 (the scenario that comes out is an explicit program, so replay needs no search).

use crate::gen::pop;
use crate::rng::Rng;
use crate::world::host::HostCfg;
use crate::world::vm::{self, Outcome, ProgSpec};
use serde_json::{json, Value};

/// (cycles + 1, range rows, chiplet rows + 1) of an honest execution; None if it fails
fn measure(src: &str, kernel: &Option<String>) -> Option<(usize, usize, usize)> {
    let spec = ProgSpec { source: src.to_string(), kernel: kernel.clone(), ..Default::default() };
    let program = spec.assemble(false).ok()?;
    let mut host = spec.host(vec![], HostCfg::default());
    match vm::run(&program, spec.stack(), &mut host, vm::options(Some(1 << 16), 64, false)) {
        Outcome::Ok(t) => {
            let s = *t.trace_len_summary();
            let c = s.chiplets_trace_len();
            Some((s.main_trace_len() + 1, s.range_trace_len(), c.hash_chiplet_len() + c.bitwise_chiplet_len() + c.memory_chiplet_len() + c.kernel_rom_len() + 1))
        }
        _ => None,
    }
}

pub fn scenario(rng: &mut Rng) -> Value {
    let which = rng.below(3) as usize; // 0 cycles, 1 range, 2 chiplets
    let k = rng.range(6, 9) as u32;
    // the component (incl. its mandatory extra row) should occupy 2^k - 1 - d rows: d = 0 fills the
    // trace up to the random row; d = -1 needs the next power of two
    let d = *rng.pick(&[0i64, 0, 0, 1, 2, -1]);
    let target = ((1i64 << k) - 1 - d) as usize;
    let with_kernel = which == 2 && rng.chance(1, 3);
    let kernel = if with_kernel { Some("export.k0\n    push.1 drop\nend\n".to_string()) } else { None };
    // fixed part of the chiplet scenario: permutations / bitwise operations (1 resp. 4 cycles for 8
    // chiplet rows each) so that the chiplets, not the cycles, determine the trace length
    let a = ((target as i64 - 30) / 8).max(0) as u64;
    let vals: Vec<u64> = (0..600).map(|_| rng.below(1 << 32)).collect();
    let style = rng.below(3);
    let build = |n: usize| -> String {
        let mut s = String::from("begin\n");
        match which {
            0 => {
                for i in 0..n {
                    s.push_str(if i % 2 == 0 { "    swap\n" } else { "    neg\n" });
                }
            }
            1 => {
                // every u32split sends four 16-bit values to the range checker
                for i in 0..n {
                    s.push_str(&format!("    push.{} u32split drop drop\n", vals[i % vals.len()] + ((i / vals.len()) as u64) * 7919));
                }
            }
            _ => {
                for _ in 0..a {
                    s.push_str(if style == 0 { "    hperm\n" } else { "    push.5 push.6 u32and drop\n" });
                }
                if with_kernel {
                    s.push_str("    syscall.k0\n");
                }
                // one memory row each; the last chiplet row is a memory row (or a kernel ROM row)
                // (mem_stream: one operation without an immediate, two memory rows - so the span, and
                // with it the hasher rows, grows slowly and almost every row count can be reached)
                for _ in 0..n / 2 {
                    s.push_str("    mem_stream\n");
                }
                if n % 2 == 1 {
                    s.push_str(match style {
                        0 => "    mem_storew.1\n",
                        1 => "    mem_loadw.3\n",
                        _ => "    mem_load.2 drop\n",
                    });
                }
            }
        }
        s.push_str("end\n");
        s
    };
    // measured search on the parameter n: bracket the target, then bisect (the component length
    // grows with n, in steps of one row or, where a new operation batch starts, of a few rows)
    let mut best: Option<(usize, String)> = None;
    let mut probe = |n: usize, best: &mut Option<(usize, String)>| -> Option<usize> {
        let src = build(n);
        let m = measure(&src, &kernel)?;
        let l = [m.0, m.1, m.2][which];
        let dist = (l as i64 - target as i64).unsigned_abs() as usize;
        if best.as_ref().map(|b| dist < b.0).unwrap_or(true) {
            *best = Some((dist, src));
        }
        Some(l)
    };
    let (mut lo, mut hi) = (0usize, 8usize);
    let mut ok = true;
    loop {
        match probe(hi, &mut best) {
            Some(l) if l >= target => break,
            Some(_) if hi < 4096 => {
                lo = hi;
                hi *= 2;
            }
            _ => {
                ok = false;
                break;
            }
        }
    }
    while ok && hi - lo > 1 && best.as_ref().map(|b| b.0 != 0).unwrap_or(true) {
        let mid = (lo + hi) / 2;
        match probe(mid, &mut best) {
            Some(l) if l >= target => hi = mid,
            Some(_) => lo = mid,
            None => break,
        }
    }
    let src = best.map(|b| b.1).unwrap_or_else(|| build(8));
    let mut prog = json!({"source": src, "stack_inputs": [], "advice_stack": []});
    if let Some(k) = kernel {
        prog["kernel"] = json!(k);
    }
    let comp = ["cycles", "range", "chiplets"][which];
    json!({"prog": prog, "knobs": pop::knobs(rng), "challenges": pop::challenges(rng), "boundary": {"component": comp, "target": target}})
}
