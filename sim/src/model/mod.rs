pub mod merkle;
