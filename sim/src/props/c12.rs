//! C12 — all lookups between trace components balance (conservation check over the recorded
//! history; challenges from the simulated challenger: seam S5).

use crate::framework::*;
use crate::gen::pop;
use crate::gen::prog::GenCfg;
use crate::model::air_monitor::{challenges_from, opcode_at, Quad};
use crate::model::opnames::op_name;
use crate::rng::{Fnv, Rng};
use crate::world::host::HostCfg;
use crate::world::vm::{self, Outcome, ProgSpec};
use serde_json::{json, Value};
use vm_core::{ExtensionOf, Felt, FieldElement, Operation, Word};
use winter_prover::Trace;

pub struct C12;

pub const COLS: [&str; 7] = ["p1_block_stack", "p2_block_hash", "p3_op_group", "s_overflow", "b_range", "vt_chiplets", "b_chiplets"];

impl Prop for C12 {
    fn id(&self) -> &'static str {
        "C12"
    }
    fn level(&self) -> &'static str {
        "exploration"
    }
    fn runs(&self, tier: Tier) -> u64 {
        match tier {
            Tier::Quick => 3000,
            Tier::Thorough => 150_000,
        }
    }
    fn rule(&self) -> &'static str {
        "one run = one generated program (G_all swarm, or in 1 run of 12 standard-library procedures on random operands) executed honestly; the auxiliary segment is built under seeded non-degenerate challenges (twice, with two independent challenge sets) and every running-product / running-sum column must start and end (last non-random row) at its specified value: p1, p3 1->1; p2 program-hash row -> 1; stack overflow column per inputs/outputs; b_range 1->1; chiplets virtual table and bus 1->1 (with a kernel: see DESIGN). In addition the range checker is recounted literally: the multiset of values requested by u32-operation rows (helper registers) and memory rows (d0, d1) of the stored trace must equal the multiset given by the range checker's (value, multiplicity) rows. Non-trivial = execution succeeded and the columns were built; distinct = digest of (source, inputs, advice, challenges)."
    }
    fn generate(&self, rng: &mut Rng, _tier: Tier, _index: u64) -> Value {
        if rng.chance(1, 40) {
            // deliberate probe of the rcomb_base operand forms the bus request cannot represent
            let src = if rng.chance(1, 2) {
                format!("begin push.{}.{}.3.4 mem_storew.77 dropw push.9.77.78 padw padw padw push.1 rcomb_base end", rng.felt(), rng.felt())
            } else {
                format!("begin push.9.{}.78 padw padw padw push.1 rcomb_base end", (1u64 << 32) + 77)
            };
            return json!({"prog": {"source": src, "stack_inputs": [], "advice_stack": []}, "knobs": pop::knobs(rng), "challenges": pop::challenges(rng), "challenges_2": pop::challenges(rng)});
        }
        if rng.chance(1, 12) {
            let mut sc = crate::gen::boundary::scenario(rng);
            sc["challenges_2"] = json!(pop::challenges(rng));
            return sc;
        }
        if rng.chance(1, 12) {
            let mut sc = pop::stdlib_scenario(rng);
            sc["challenges_2"] = json!(pop::challenges(rng));
            return sc;
        }
        let mut cfg = GenCfg::swarm(rng);
        if rng.chance(1, 2) {
            // lookup-heavy straight-line / loop programs without call-family blocks
            cfg.n_procs = 0;
            cfg.n_kernel = 0;
            cfg.chunk_max = cfg.chunk_max.min(40);
            cfg.w_mem += 4;
            cfg.w_crypto += 3;
            cfg.w_u32 += 3;
        }
        let mut sc = pop::scenario(rng, cfg);
        sc["challenges_2"] = json!(pop::challenges(rng));
        sc
    }
    fn execute(&self, sc: &Value) -> RunOut {
        let mut out = RunOut::default();
        out.digest = digest_value(sc);
        let spec = ProgSpec::from_json(&sc["prog"]);
        let program = match spec.assemble(false) {
            Ok(p) => p,
            Err(e) => {
                out.count("outcome:assemble-failed");
                out.sample = Some(json!({"assemble_error": e}));
                return out;
            }
        };
        let kn = &sc["knobs"];
        let mut host = spec.host(vec![], HostCfg::default());
        let r = vm::run(&program, spec.stack(), &mut host, vm::options(None, kn["expected_cycles"].as_u64().unwrap_or(64) as u32, false));
        let mut trace = match r {
            Outcome::Ok(t) => t,
            other => {
                out.count(&format!("outcome:exec-{}", other.class()));
                return out;
            }
        };
        let len = trace.length();
        let n = trace.trace_len_summary().main_trace_len();
        out.cycles = n as u64;
        let main = trace.main_segment().clone();
        // features of the recorded history used to attribute an imbalance
        let (mut has_call, mut has_syscall, mut has_dyn, mut has_respan) = (false, false, false, false);
        let mut ops_seen = std::collections::BTreeSet::new();
        for r in 0..n.min(len - 1) {
            let o = opcode_at(&main, r);
            ops_seen.insert(o);
            has_call |= o == Operation::Call.op_code();
            has_syscall |= o == Operation::SysCall.op_code();
            has_dyn |= o == Operation::Dyn.op_code();
            has_respan |= o == Operation::Respan.op_code();
        }
        for o in &ops_seen {
            out.count(&format!("reach:requester|{}", op_name(*o)));
        }
        // Range checker, literally as multisets and without any challenge: the values requested by the
        // rows of the stored trace (four helper registers of every u32 operation with opcode prefix
        // 100, d0 and d1 of every memory chiplet row) against the (value, multiplicity) rows of the
        // range checker. The b_range column itself is built from recorded hints, not from these
        // cells, so its terminal value alone does not tie the two together.
        {
            use miden_air::trace::chiplets::{MEMORY_D0_COL_IDX, MEMORY_D1_COL_IDX};
            use miden_air::trace::decoder::DECODER_USER_OP_HELPERS_OFFSET;
            use miden_air::trace::range::{M_COL_IDX, V_COL_IDX};
            use miden_air::trace::CHIPLETS_OFFSET;
            let g = crate::model::tracecols::g;
            let mut bal: std::collections::BTreeMap<u64, i128> = Default::default();
            let (mut n_stack, mut n_mem) = (0u64, 0u64);
            for r in 0..len - 1 {
                if opcode_at(&main, r) >> 4 == 0b100 {
                    for i in 0..4 {
                        *bal.entry(g(&main, DECODER_USER_OP_HELPERS_OFFSET + i, r)).or_insert(0) += 1;
                    }
                    n_stack += 4;
                }
                if g(&main, CHIPLETS_OFFSET, r) == 1 && g(&main, CHIPLETS_OFFSET + 1, r) == 1 && g(&main, CHIPLETS_OFFSET + 2, r) == 0 {
                    *bal.entry(g(&main, MEMORY_D0_COL_IDX, r)).or_insert(0) += 1;
                    *bal.entry(g(&main, MEMORY_D1_COL_IDX, r)).or_insert(0) += 1;
                    n_mem += 2;
                }
                let m = g(&main, M_COL_IDX, r);
                if m != 0 {
                    *bal.entry(g(&main, V_COL_IDX, r)).or_insert(0) -= m as i128;
                }
            }
            let off: Vec<(u64, i128)> = bal.iter().filter(|(_, c)| **c != 0).map(|(v, c)| (*v, *c)).take(6).collect();
            if !off.is_empty() {
                let who = if n_mem > 0 && n_stack == 0 { "memory" } else if n_stack > 0 && n_mem == 0 { "stack" } else { "mixed" };
                out.violate(format!("C12/multiset/range-checker/{}", who), format!("requested values and range-checker rows differ; (value, requests minus responses) = {:?} ({} stack requests, {} memory requests)", off, n_stack, n_mem));
            } else {
                out.count("reach:balanced|range-checker|multiset-recount");
                if n_mem > 0 {
                    out.count("probe:range-requests-from-memory");
                }
                if n_stack > 0 {
                    out.count("probe:range-requests-from-u32-ops");
                }
            }
        }
        let has_kernel = !program.kernel().is_empty();
        // RCOMBBASE rows whose operands the bus request cannot represent (DESIGN F26): pointers that
        // are not u32 values, or a randomness word with a non-zero upper half
        let mut rcomb_unrepresentable = false;
        if ops_seen.contains(&Operation::RCombBase.op_code()) {
            let mem = crate::model::tracecols::memory_rows(&main);
            for r in 0..n.min(len - 1) {
                if opcode_at(&main, r) != Operation::RCombBase.op_code() {
                    continue;
                }
                let st = crate::model::tracecols::stack_top(&main, r);
                let ctx = crate::model::tracecols::ctx(&main, r);
                if st[13] >= (1 << 32) || st[14] >= (1 << 32) {
                    rcomb_unrepresentable = true;
                }
                if let Some(m) = mem.iter().find(|m| m.ctx == ctx && m.addr == (st[14] & 0xffff_ffff) && m.clk == r as u64) {
                    if m.v[2] != 0 || m.v[3] != 0 {
                        rcomb_unrepresentable = true;
                    }
                }
            }
        }
        let feat = |col: usize| -> &'static str {
            match col {
                0 | 1 => {
                    if has_call || has_syscall {
                        "call-family"
                    } else if has_respan {
                        "respan"
                    } else {
                        "plain"
                    }
                }
                6 if rcomb_unrepresentable => "rcomb-base-operands",
                5 | 6 => {
                    if has_syscall {
                        "syscall"
                    } else if has_kernel {
                        "kernel"
                    } else if has_dyn {
                        "dyn"
                    } else if has_respan {
                        "respan"
                    } else {
                        "plain"
                    }
                }
                _ => "plain",
            }
        };
        let mut obs = Fnv::new();
        let h: Word = program.hash().into();
        let mon = crate::model::air_monitor::Monitor::new(&trace, spec.stack());
        for (k, key) in ["challenges", "challenges_2"].iter().enumerate() {
            let ch: Vec<Quad> = challenges_from(&vm::u64s(&sc[*key]));
            let aux = match catch(|| trace.build_aux_segment(&[], &ch)) {
                Ok(Some(a)) => a,
                Ok(None) => {
                    out.violate("C12/aux/not-built", "build_aux_segment returned None");
                    return out;
                }
                Err((l, m)) => {
                    out.violate(format!("C12/aux-build-panic/{}", l), m);
                    return out;
                }
            };
            out.nontrivial = true;
            // columns whose boundary values are part of the AIR (stack overflow table, range checker):
            // the AIR's own assertions are the specification
            {
                use winter_air::Air;
                let rand = mon.rand_elements(&ch);
                for a in mon.air.get_aux_assertions(&rand) {
                    let col = a.column();
                    let mut bad: Option<(usize, Quad, Quad)> = None;
                    a.apply(len, |step, value| {
                        if aux.get(col, step) != value && bad.is_none() {
                            bad = Some((step, aux.get(col, step), value));
                        }
                    });
                    if let Some((step, got, want)) = bad {
                        let which = if step == 0 { "initial" } else { "terminal" };
                        out.violate(format!("C12/{}/{}/{}", which, COLS[col.min(6)], feat(col)), format!("column {} at step {} is {:?}, the AIR's boundary assertion requires {:?} (challenge set {})", COLS[col.min(6)], step, got, want, k));
                    } else {
                        out.count(&format!("reach:balanced|{}|air-assertion", COLS[col.min(6)]));
                    }
                }
            }
            let p2_init = ch[0] + ch[2].mul_base(h[0]) + ch[3].mul_base(h[1]) + ch[4].mul_base(h[2]) + ch[5].mul_base(h[3]);
            let one = Quad::ONE;
            let zero = Quad::ZERO;
            // (column, expected first, expected last); None = specified by the AIR's own assertion (checked in C03)
            let expect: [(usize, Option<Quad>, Option<Quad>); 6] = [(0, Some(one), Some(one)), (1, Some(p2_init), Some(one)), (2, Some(one), Some(one)), (4, Some(one), Some(one)), (5, Some(one), Some(one)), (6, Some(one), Some(one))];
            // Kernel procedure table (DESIGN F16): with a kernel, the v0.8 builders (a) include a kernel
            // procedure into the virtual table whenever a kernel-ROM row coincides with a change of
            // the *decoder's* address column and (b) multiply the kernel procedure table value into
            // the bus column as well. Both are reproduced here from the stored trace so that this
            // specific, known deviation is recognised exactly and anything else is still reported.
            let (mut k_vt_impl, mut k_b_impl) = (one, one);
            let mut k_vt_spec = one;
            if has_kernel {
                use miden_air::trace::{CHIPLETS_OFFSET, DECODER_TRACE_OFFSET};
                for r in 0..len - 2 {
                    let g = |c: usize, r: usize| main.get(c, r);
                    let is_k = g(CHIPLETS_OFFSET, r) == Felt::ONE && g(CHIPLETS_OFFSET + 1, r) == Felt::ONE && g(CHIPLETS_OFFSET + 2, r) == Felt::ONE && g(CHIPLETS_OFFSET + 3, r) == Felt::ZERO;
                    if !is_k {
                        continue;
                    }
                    let v = ch[0] + ch[1].mul_base(g(CHIPLETS_OFFSET + 5, r)) + ch[2].mul_base(g(CHIPLETS_OFFSET + 6, r)) + ch[3].mul_base(g(CHIPLETS_OFFSET + 7, r)) + ch[4].mul_base(g(CHIPLETS_OFFSET + 8, r)) + ch[5].mul_base(g(CHIPLETS_OFFSET + 9, r));
                    if g(DECODER_TRACE_OFFSET, r) != g(DECODER_TRACE_OFFSET, r + 1) {
                        // (the builder also takes the address itself from the decoder column)
                        k_vt_impl *= v - ch[1].mul_base(g(CHIPLETS_OFFSET + 5, r)) + ch[1].mul_base(g(DECODER_TRACE_OFFSET, r));
                    }
                    let first_of_proc = r == 0 || !(g(CHIPLETS_OFFSET, r - 1) == Felt::ONE && g(CHIPLETS_OFFSET + 1, r - 1) == Felt::ONE && g(CHIPLETS_OFFSET + 2, r - 1) == Felt::ONE && g(CHIPLETS_OFFSET + 3, r - 1) == Felt::ZERO) || g(CHIPLETS_OFFSET + 5, r - 1) != g(CHIPLETS_OFFSET + 5, r);
                    if first_of_proc {
                        k_vt_spec *= v;
                    }
                    let delta = g(CHIPLETS_OFFSET + 5, r + 1) - g(CHIPLETS_OFFSET + 5, r);
                    k_b_impl *= v.mul_base(delta) + Quad::from(Felt::ONE - delta);
                }
            }
            for (col, first, last) in expect {
                let f = aux.get(col, 0);
                let l = aux.get(col, len - 2);
                obs.u64(f.to_base_elements()[0].as_int()).u64(l.to_base_elements()[0].as_int());
                if let Some(e) = first {
                    if f != e {
                        out.violate(format!("C12/initial/{}/{}", COLS[col], feat(col)), format!("column {} starts at {:?}, specified {:?} (challenge set {})", COLS[col], f, e, k));
                    }
                }
                if let Some(e) = last {
                    if has_kernel && col == 5 && l == k_vt_spec {
                        // the documented final value: product of all unique kernel procedures
                        out.count("reach:balanced|vt_chiplets|kernel-spec-product");
                    } else if has_kernel && l != e && ((col == 5 && l == k_vt_impl) || (col == 6 && l == k_b_impl)) {
                        out.violate(format!("C12/terminal/{}/kernel-proc-table", COLS[col]), format!("column {} ends at the product of the kernel procedure table entries as built by the v0.8 aux builders instead of its specified value (all other lookups of this column balance)", COLS[col]));
                    } else if l != e {
                        out.violate(
                            format!("C12/terminal/{}/{}", COLS[col], feat(col)),
                            format!("column {} ends (row len-2={}) at {:?}, specified {:?} (challenge set {}; trace has call={} syscall={} dyn={} respan={} kernel={})", COLS[col], len - 2, l, e, k, has_call, has_syscall, has_dyn, has_respan, has_kernel),
                        );
                    } else {
                        out.count(&format!("reach:balanced|{}|{}", COLS[col], feat(col)));
                    }
                }
            }
        }
        let _ = Felt::ZERO;
        out.obs = obs.finish();
        out.sample = Some(json!({"source": spec.source, "kernel": spec.kernel, "trace_len": len, "cycles": n, "features": {"call": has_call, "syscall": has_syscall, "dyn": has_dyn, "respan": has_respan, "kernel": has_kernel}}));
        out
    }
    fn shrink_candidates(&self, sc: &Value) -> Vec<Value> {
        crate::shrinksrc::prog_candidates(sc, "/prog")
    }
    fn components_real(&self) -> Vec<&'static str> {
        vec!["assembler", "processor (execution, all aux column builders)", "MemAdviceProvider"]
    }
    fn components_simulated(&self) -> Vec<&'static str> {
        vec!["challenger (two seeded challenge sets per run)", "honest SimHost", "program generator", "boundary-value specification table"]
    }
    fn assumptions(&self) -> Vec<&'static str> {
        vec!["terminal value read at the last non-random row (len-2)", "degenerate challenges (zero / repeated) are not drawn"]
    }
}
