//! C09 — prover-supplied hints cannot change results (Byzantine host: seam S1).

use crate::framework::*;
use crate::model::merkle::tree_of;
use crate::rng::{Fnv, Rng, P};
use crate::world::host::{wi, AdvFault, HostCfg, EV_EVENT};
use crate::world::vm::{self, Outcome, ProgSpec};
use processor::crypto::NodeIndex;
use serde_json::{json, Value};
use vm_core::{Felt, FieldElement, Word};

pub struct C09;


/// one hinted step: instruction text (with operand pushes), number of result elements to compare at
/// the observation point, and the natively computed expected values (top first); `must_fail` for
/// invalid operands / non-members
struct Step {
    kind: String,
    code: String,
    expect: Vec<u64>,
    must_fail: bool,
    cleanup: String,
}

fn u64_limbs(v: u64) -> (u64, u64) {
    (v >> 32, v & 0xffff_ffff)
}

fn gen_step(rng: &mut Rng, trees: &mut Vec<Vec<[u64; 4]>>, next_addr: &mut u64) -> Value {
    let k = rng.below(20);
    match k {
        0..=3 => {
            let op = *rng.pick(&["u32clz", "u32ctz", "u32clo", "u32cto"]);
            let a = match rng.below(6) {
                0 | 5 if rng.chance(1, 2) => 0,
                0 => 0,
                1 => 0xffff_ffff,
                2 => 1u64 << rng.below(32),
                3 => (1u64 << rng.below(33)) - 1,
                4 => 0xffff_ffff ^ ((1u64 << rng.below(32)) - 1),
                _ => rng.u32v(),
            };
            json!({"kind": op, "a": a.to_string()})
        }
        4 | 5 => {
            let a = match rng.below(6) {
                0 => 1,
                1 => 1u64 << rng.below(64),
                2 => ((1u64 << rng.below(63)) + 1) % P,
                3 => P - 1,
                4 => 0, // invalid operand: must fail
                _ => rng.felt(),
            };
            json!({"kind": "ilog2", "a": a.to_string()})
        }
        6 | 7 => {
            let zero = rng.chance(1, 10);
            let (a0, a1) = if zero { (0, 0) } else { (rng.felt(), if rng.chance(1, 4) { 0 } else { rng.felt() }) };
            if rng.chance(1, 2) {
                json!({"kind": "ext2inv", "a0": a0.to_string(), "a1": a1.to_string()})
            } else {
                json!({"kind": "ext2div", "a0": rng.felt().to_string(), "a1": rng.felt().to_string(), "b0": a0.to_string(), "b1": a1.to_string()})
            }
        }
        8..=10 => {
            let op = *rng.pick(&["u64div", "u64mod", "u64divmod"]);
            let pickv = |rng: &mut Rng| match rng.below(6) {
                0 => 0,
                1 => 1,
                2 => u64::MAX,
                3 => 1u64 << rng.below(64),
                4 => rng.below(1 << 32),
                _ => rng.next(),
            };
            let a = pickv(rng);
            let b = if rng.chance(1, 12) { 0 } else { pickv(rng) };
            json!({"kind": op, "a": a.to_string(), "b": b.to_string()})
        }
        11 => {
            let op = *rng.pick(&["u64clz", "u64ctz", "u64clo", "u64cto"]);
            let a = match rng.below(5) {
                0 => 0,
                1 => u64::MAX,
                2 => 1u64 << rng.below(64),
                3 => u64::MAX << rng.below(64),
                _ => rng.next(),
            };
            json!({"kind": op, "a": a.to_string()})
        }
        12..=16 => {
            // Merkle steps over a tree held by the host
            let t = if trees.is_empty() || rng.chance(1, 3) {
                let depth = rng.range(1, 6);
                let n = 1usize << depth;
                trees.push((0..n).map(|_| [rng.below(P), rng.below(P), rng.below(P), rng.below(P)]).collect());
                trees.len() - 1
            } else {
                rng.usize(trees.len())
            };
            let full = trees[t].len().trailing_zeros() as u64;
            // request depth: the leaf level, or (for get/verify) an inner level
            let depth = if rng.chance(2, 3) { full } else { rng.range(1, full) };
            let index = rng.below(1 << depth);
            match rng.below(4) {
                0 | 1 => json!({"kind": "mtree_get", "tree": t, "depth": depth, "index": index}),
                2 => json!({"kind": "mtree_verify", "tree": t, "depth": depth, "index": index, "member": rng.chance(3, 4), "bad": rng.felt().to_string()}),
                _ => json!({"kind": "mtree_set", "tree": t, "depth": full, "index": rng.below(1 << full), "new": (0..4).map(|_| rng.below(P).to_string()).collect::<Vec<_>>()}),
            }
        }
        17 => json!({"kind": "adv_push", "n": rng.range(1, 16), "vals": (0..16).map(|_| rng.felt().to_string()).collect::<Vec<_>>()}),
        18 => json!({"kind": "adv_loadw", "vals": (0..4).map(|_| rng.felt().to_string()).collect::<Vec<_>>()}),
        _ => {
            let a = *next_addr;
            *next_addr += 2;
            json!({"kind": "adv_pipe", "addr": a, "vals": (0..8).map(|_| rng.felt().to_string()).collect::<Vec<_>>()})
        }
    }
}

fn pu(v: &Value) -> u64 {
    v.as_str().and_then(|s| s.parse().ok()).or(v.as_u64()).unwrap_or(0)
}

/// builds the step's code and natively computed expectation; `trees` evolves with mtree_set
fn build_step(v: &Value, trees: &mut Vec<Vec<[u64; 4]>>, advice: &mut Vec<u64>) -> Step {
    let kind = v["kind"].as_str().unwrap_or("").to_string();
    let mut st = Step { kind: kind.clone(), code: String::new(), expect: vec![], must_fail: false, cleanup: String::new() };
    match kind.as_str() {
        "u32clz" | "u32ctz" | "u32clo" | "u32cto" => {
            let a = pu(&v["a"]) as u32;
            st.code = format!("push.{} {}", a, kind);
            st.expect = vec![match kind.as_str() {
                "u32clz" => a.leading_zeros(),
                "u32ctz" => a.trailing_zeros(),
                "u32clo" => a.leading_ones(),
                _ => a.trailing_ones(),
            } as u64];
            st.cleanup = "drop".into();
        }
        "ilog2" => {
            let a = pu(&v["a"]) % P;
            st.code = format!("push.{} ilog2", a);
            if a == 0 {
                st.must_fail = true;
            } else {
                st.expect = vec![63 - a.leading_zeros() as u64];
            }
            st.cleanup = "drop".into();
        }
        "ext2inv" => {
            let (a0, a1) = (pu(&v["a0"]) % P, pu(&v["a1"]) % P);
            st.code = format!("push.{}.{} ext2inv", a0, a1);
            if a0 == 0 && a1 == 0 {
                st.must_fail = true;
            } else {
                let r = crate::model::field::ext2_inv((a0, a1));
                st.expect = vec![r.1, r.0];
            }
            st.cleanup = "drop drop".into();
        }
        "ext2div" => {
            let (a0, a1, b0, b1) = (pu(&v["a0"]) % P, pu(&v["a1"]) % P, pu(&v["b0"]) % P, pu(&v["b1"]) % P);
            st.code = format!("push.{}.{}.{}.{} ext2div", a0, a1, b0, b1);
            if b0 == 0 && b1 == 0 {
                st.must_fail = true;
            } else {
                let r = crate::model::field::ext2_mul((a0, a1), crate::model::field::ext2_inv((b0, b1)));
                st.expect = vec![r.1, r.0];
            }
            st.cleanup = "drop drop".into();
        }
        "u64div" | "u64mod" | "u64divmod" => {
            let (a, b) = (pu(&v["a"]), pu(&v["b"]));
            let (ah, al) = u64_limbs(a);
            let (bh, bl) = u64_limbs(b);
            st.code = format!("push.{}.{}.{}.{} exec.u64::{}", al, ah, bl, bh, &kind[3..]);
            if b == 0 {
                st.must_fail = true;
            } else {
                let (q, r) = (a / b, a % b);
                let (qh, ql) = u64_limbs(q);
                let (rh, rl) = u64_limbs(r);
                st.expect = match kind.as_str() {
                    "u64div" => vec![qh, ql],
                    "u64mod" => vec![rh, rl],
                    _ => vec![rh, rl, qh, ql],
                };
            }
            st.cleanup = if kind == "u64divmod" { "drop drop drop drop".into() } else { "drop drop".into() };
        }
        "u64clz" | "u64ctz" | "u64clo" | "u64cto" => {
            let a = pu(&v["a"]);
            let (ah, al) = u64_limbs(a);
            st.code = format!("push.{}.{} exec.u64::{}", al, ah, &kind[3..]);
            st.expect = vec![match kind.as_str() {
                "u64clz" => a.leading_zeros(),
                "u64ctz" => a.trailing_zeros(),
                "u64clo" => a.leading_ones(),
                _ => a.trailing_ones(),
            } as u64];
            st.cleanup = "drop".into();
        }
        "mtree_get" | "mtree_verify" | "mtree_set" => {
            let t = v["tree"].as_u64().unwrap_or(0) as usize % trees.len().max(1);
            let leaves = trees[t].clone();
            let tree = tree_of(&leaves);
            let root: Word = tree.root().into();
            let r = wi(&root);
            let depth = v["depth"].as_u64().unwrap_or(1);
            let index = v["index"].as_u64().unwrap_or(0);
            let node: Word = tree.get_node(NodeIndex::new(depth as u8, index).unwrap()).map(|d| d.into()).unwrap_or([Felt::ZERO; 4]);
            let n = wi(&node);
            let rp = format!("push.{}.{}.{}.{}", r[0], r[1], r[2], r[3]);
            match kind.as_str() {
                "mtree_get" => {
                    st.code = format!("{} push.{}.{} mtree_get", rp, index, depth);
                    st.expect = vec![n[3], n[2], n[1], n[0], r[3], r[2], r[1], r[0]];
                    st.cleanup = "dropw dropw".into();
                }
                "mtree_verify" => {
                    let member = v["member"].as_bool().unwrap_or(true);
                    let mut val = n;
                    if !member {
                        val[(pu(&v["bad"]) % 4) as usize] = (val[(pu(&v["bad"]) % 4) as usize] + 1 + pu(&v["bad"]) % 1000) % P;
                        st.must_fail = true;
                    }
                    st.code = format!("{} push.{}.{} push.{}.{}.{}.{} mtree_verify", rp, index, depth, val[0], val[1], val[2], val[3]);
                    st.expect = vec![val[3], val[2], val[1], val[0], depth, index, r[3], r[2], r[1], r[0]];
                    st.cleanup = "dropw drop drop dropw".into();
                }
                _ => {
                    let newv: Vec<u64> = vm::u64s(&v["new"]);
                    let nv = [newv[0] % P, newv[1] % P, newv[2] % P, newv[3] % P];
                    let mut l2 = leaves.clone();
                    let old = l2[index as usize];
                    l2[index as usize] = nv;
                    let nr = crate::model::merkle::root_of(&l2);
                    trees.push(l2);
                    st.code = format!("push.{}.{}.{}.{} {} push.{}.{} mtree_set", nv[0], nv[1], nv[2], nv[3], rp, index, depth);
                    st.expect = vec![old[3], old[2], old[1], old[0], nr[3], nr[2], nr[1], nr[0]];
                    st.cleanup = "dropw dropw".into();
                }
            }
        }
        "adv_push" => {
            let n = v["n"].as_u64().unwrap_or(1) as usize;
            let vals: Vec<u64> = vm::u64s(&v["vals"]).into_iter().take(n).collect();
            advice.extend(vals.iter());
            st.code = format!("adv_push.{}", n);
            // the first element popped ends up deepest
            st.expect = vals.iter().rev().cloned().collect();
            st.cleanup = "drop ".repeat(n);
        }
        "adv_loadw" => {
            let vals: Vec<u64> = vm::u64s(&v["vals"]);
            advice.extend(vals.iter());
            st.code = "padw adv_loadw".into();
            st.expect = vals.iter().rev().cloned().collect();
            st.cleanup = "dropw".into();
        }
        "adv_pipe" => {
            let vals: Vec<u64> = vm::u64s(&v["vals"]);
            advice.extend(vals.iter());
            let a = v["addr"].as_u64().unwrap_or(100);
            st.code = format!("push.{} padw padw padw adv_pipe", a);
            let mut e: Vec<u64> = vals.iter().rev().cloned().collect();
            e.extend([0, 0, 0, 0, a + 2]);
            st.expect = e;
            st.cleanup = "dropw dropw dropw drop".into();
        }
        _ => {
            st.code = "push.0".into();
            st.expect = vec![0];
            st.cleanup = "drop".into();
        }
    }
    st
}

struct Built {
    spec: ProgSpec,
    steps: Vec<Step>,
}

fn build(sc: &Value) -> Built {
    let mut trees: Vec<Vec<[u64; 4]>> = sc["trees"].as_array().cloned().unwrap_or_default().iter().map(|t| t.as_array().cloned().unwrap_or_default().iter().map(vm::word_of).collect()).collect();
    let mut advice = vec![];
    let mut steps = vec![];
    for v in sc["steps"].as_array().cloned().unwrap_or_default() {
        steps.push(build_step(&v, &mut trees, &mut advice));
    }
    let mut src = String::from("use.std::math::u64\nbegin\n");
    for (i, s) in steps.iter().enumerate() {
        src.push_str(&format!("    {} emit.{} {}\n", s.code, i + 1, s.cleanup));
    }
    src.push_str("end\n");
    // the host's Merkle store holds the initial trees only: updated trees are created by mtree_set
    let init_trees: Vec<Vec<[u64; 4]>> = sc["trees"].as_array().cloned().unwrap_or_default().iter().map(|t| t.as_array().cloned().unwrap_or_default().iter().map(vm::word_of).collect()).collect();
    let spec = ProgSpec { source: src, kernel: None, stack_inputs: vec![], advice_stack: advice, trees: init_trees, advice_map: vec![], stdlib: true };
    Built { spec, steps }
}

fn fault_for(rng: &mut Rng, prim: &str, nth: u64) -> AdvFault {
    let (kind, a, b) = match prim {
        "pop_stack" => match rng.below(8) {
            0 => ("add", 1, 0),
            1 => ("add", P - 1, 0),
            2 => ("set", 0, 0),
            3 => ("set", 1, 0),
            4 => ("set", *rng.pick(&[1u64 << 16, 1 << 31, (1 << 32) - 1, 1 << 32, P - 1]), 0),
            5 => ("replay", 0, 0),
            6 => ("drop", 0, 0),
            _ => ("set", rng.below(P), 0),
        },
        "pop_stack_word" | "pop_stack_dword" => match rng.below(5) {
            0 => ("set", rng.felt(), rng.below(8)),
            1 => ("add", 1, rng.below(8)),
            2 => ("swap", rng.below(4), rng.below(4)),
            3 => ("reverse", 0, 0),
            _ => ("drop", 0, 0),
        },
        "push_value" => match rng.below(6) {
            0 => ("add", 1, 0),
            1 => ("add", P - 1, 0),
            2 => ("set", rng.below(66), 0),
            3 => ("set", rng.felt(), 0),
            4 => ("drop", 0, 0),
            _ => ("set", *rng.pick(&[0u64, 1, 31, 32, 33, 63, 64, (1 << 32) - 1, 1 << 32]), 0),
        },
        "push_word" => match rng.below(3) {
            0 => ("set", rng.felt(), rng.below(4)),
            1 => ("reverse", 0, 0),
            _ => ("swap", rng.below(4), rng.below(4)),
        },
        "get_tree_node" => match rng.below(3) {
            0 => ("other_node", rng.range(1, 6), rng.below(64)),
            1 => ("set", rng.felt(), rng.below(4)),
            _ => ("err", 0, 0),
        },
        "get_merkle_path" => match rng.below(6) {
            0 => ("other_index", rng.below(64), 0),
            1 => ("other_depth", rng.range(1, 6), rng.below(64)),
            2 => ("flip_sibling", rng.below(8), rng.below(4)),
            3 => ("truncate", 0, 0),
            4 => ("extend", rng.felt(), rng.felt()),
            _ => ("err", 0, 0),
        },
        "update_merkle_node" => match rng.below(5) {
            0 => ("other_index", rng.below(64), 0),
            1 => ("set", rng.felt(), rng.below(4)),
            2 => ("flip_sibling", rng.below(8), rng.below(4)),
            3 => ("drop", 0, 0),
            _ => ("err", 0, 0),
        },
        _ => ("err", 0, 0),
    };
    AdvFault { prim: prim.to_string(), nth, kind: kind.to_string(), a, b }
}

impl Prop for C09 {
    fn id(&self) -> &'static str {
        "C09"
    }
    fn level(&self) -> &'static str {
        "fault_enumeration"
    }
    fn runs(&self, tier: Tier) -> u64 {
        match tier {
            Tier::Quick => 4000,
            Tier::Thorough => 400_000,
        }
    }
    fn rule(&self) -> &'static str {
        "one run = a program of 1-8 hinted steps (u32clz/ctz/clo/cto, ilog2, ext2inv/ext2div, std::math::u64 div/mod/divmod/clz/ctz/clo/cto, mtree_get/set/verify over trees in the host's store, adv_push/adv_loadw/adv_pipe) with boundary-biased operands, executed (a) against the honest host - must succeed with the natively computed result at every observation point, or fail for invalid operands - and (b) against the Byzantine host under a fault plan placed by a dry run on a primitive request that really occurs (value/order/loss faults on the advice stack, lying injector pushes, Merkle path/node faults incl. the other-level attack), or (c) under an exhaustive sweep of the hint value 0..=64 plus random elements for one hinted instruction. Under faults: every observation must carry the correct result or the run must not reach it. One evaluation = one execution; non-trivial = a planned fault fired (or the honest run was judged); distinct = digest of (source, advice, fault plan)."
    }
    fn generate(&self, rng: &mut Rng, _tier: Tier, _index: u64) -> Value {
        let mut trees: Vec<Vec<[u64; 4]>> = vec![];
        let mut next_addr = 100 + rng.below(1000);
        let mode = rng.below(10);
        let nsteps = if mode == 0 { 1 } else { rng.range(1, 8) };
        let mut steps = vec![];
        for _ in 0..nsteps {
            let mut s = gen_step(rng, &mut trees, &mut next_addr);
            if mode == 0 {
                // hint sweep: a single hinted instruction
                while !matches!(s["kind"].as_str().unwrap_or(""), "u32clz" | "u32ctz" | "u32clo" | "u32cto" | "ilog2" | "u64clz" | "u64ctz" | "u64clo" | "u64cto") {
                    s = gen_step(rng, &mut trees, &mut next_addr);
                }
            }
            steps.push(s);
        }
        let init_trees = trees.clone();
        let mut sc = json!({
            "steps": steps,
            "trees": init_trees.iter().map(|t| t.iter().map(|l| l.iter().map(|x| x.to_string()).collect::<Vec<_>>()).collect::<Vec<_>>()).collect::<Vec<_>>(),
            "mode": if mode == 0 { "sweep" } else { "faults" },
        });
        // dry run against the honest host to see which primitive requests occur
        let b = build(&sc);
        let mut plans: Vec<Value> = vec![];
        if let Ok(program) = b.spec.assemble(false) {
            let mut host = b.spec.host(vec![], HostCfg::default());
            let _ = vm::run(&program, b.spec.stack(), &mut host, vm::options(Some(1 << 20), 64, false));
            let log = host.adv.request_log.borrow().clone();
            let mut per_prim: std::collections::BTreeMap<&str, u64> = Default::default();
            let mut reqs: Vec<(&str, u64)> = vec![];
            for (p, _) in &log {
                let c = per_prim.entry(p).or_insert(0);
                reqs.push((p, *c));
                *c += 1;
            }
            if mode == 0 {
                // exhaustive hint sweep on the first lying opportunity
                if let Some((p, n)) = reqs.iter().find(|(p, _)| *p == "push_value") {
                    for h in 0..=64u64 {
                        plans.push(json!([AdvFault { prim: p.to_string(), nth: *n, kind: "set".into(), a: h, b: 0 }.to_json()]));
                    }
                    for _ in 0..6 {
                        plans.push(json!([AdvFault { prim: p.to_string(), nth: *n, kind: "set".into(), a: rng.felt(), b: 0 }.to_json()]));
                    }
                }
            } else if !reqs.is_empty() {
                let nplans = rng.range(2, 6);
                for _ in 0..nplans {
                    let nf = if rng.chance(1, 6) { rng.range(2, 3) } else { 1 };
                    let mut fs = vec![];
                    for _ in 0..nf {
                        let (p, n) = *rng.pick(&reqs);
                        fs.push(fault_for(rng, p, n).to_json());
                    }
                    plans.push(json!(fs));
                }
                // the alternative-decomposition attack on the hinted 64-bit division: the host answers
                // (q - k, r + k*b), which still satisfies q*b + r = a but has r >= b
                let emits: Vec<(u32, u32)> = host.log.iter().filter(|e| e.kind == EV_EVENT).map(|e| (e.id, e.clk)).collect();
                for (si, s) in sc["steps"].as_array().cloned().unwrap_or_default().iter().enumerate() {
                    let kind = s["kind"].as_str().unwrap_or("");
                    if !matches!(kind, "u64div" | "u64mod" | "u64divmod") {
                        continue;
                    }
                    let (a, bb) = (pu(&s["a"]), pu(&s["b"]));
                    if bb == 0 || a / bb == 0 {
                        continue;
                    }
                    let hi = emits.iter().find(|(id, _)| *id as usize == si + 1).map(|x| x.1);
                    let lo = if si == 0 { Some(0) } else { emits.iter().find(|(id, _)| *id as usize == si).map(|x| x.1) };
                    if let (Some(lo), Some(hi)) = (lo, hi) {
                        // indices (per primitive) of the push_value requests inside this step's clock window
                        let mut idx = vec![];
                        let mut c = 0u64;
                        for (p, clk) in &log {
                            if *p == "push_value" {
                                if *clk >= lo && *clk < hi {
                                    idx.push(c);
                                }
                                c += 1;
                            }
                        }
                        if idx.len() == 4 {
                            let k = if rng.chance(3, 4) { 1 } else { rng.range(1, (a / bb).min(3)) };
                            let q2 = a / bb - k;
                            if let Some(r2) = (a % bb).checked_add(k * bb) {
                                let vals = [r2 >> 32, r2 & 0xffff_ffff, q2 >> 32, q2 & 0xffff_ffff];
                                plans.push(json!(idx.iter().zip(vals.iter()).map(|(n, v)| AdvFault { prim: "push_value".into(), nth: *n, kind: "set".into(), a: *v, b: 0 }.to_json()).collect::<Vec<_>>()));
                            }
                        }
                    }
                }
                // the other-level attack: node and path of a deeper level for the same request
                if let Some((_, n)) = reqs.iter().find(|(p, _)| *p == "get_tree_node") {
                    let d = rng.range(1, 6);
                    let i = rng.below(1 << d);
                    plans.push(json!([
                        AdvFault { prim: "get_tree_node".into(), nth: *n, kind: "other_node".into(), a: d, b: i }.to_json(),
                        AdvFault { prim: "get_merkle_path".into(), nth: *n, kind: "other_depth".into(), a: d, b: i }.to_json()
                    ]));
                }
            }
        }
        sc["plans"] = json!(plans);
        sc
    }

    fn execute(&self, sc: &Value) -> RunOut {
        let mut out = RunOut::default();
        out.digest = digest_value(sc);
        let b = build(sc);
        let program = match b.spec.assemble(false) {
            Ok(p) => p,
            Err(e) => {
                out.count("outcome:assemble-failed");
                out.sample = Some(json!({"assemble_error": e, "source": b.spec.source}));
                return out;
            }
        };
        let mut obs = Fnv::new();
        let mut subs = vec![];
        let any_must_fail = b.steps.iter().position(|s| s.must_fail);
        // judge one execution's event log against the natively computed expectations
        let mut judge = |out: &mut RunOut, host: &crate::world::host::SimHost, outcome: &Outcome, faulty: bool, tag: &str| {
            let events: Vec<&crate::world::host::Event> = host.log.iter().filter(|e| e.kind == EV_EVENT).collect();
            for e in &events {
                let i = (e.id as usize).saturating_sub(1);
                if i >= b.steps.len() {
                    continue;
                }
                let s = &b.steps[i];
                if s.must_fail {
                    out.violate(format!("C09/should-fail/{}", s.kind), format!("[{tag}] step {} `{}` has an invalid operand / non-member value but execution continued past it", i + 1, s.code));
                    continue;
                }
                if faulty && s.kind.starts_with("adv_") {
                    // plain advice values are whatever the host supplies; only their order with an
                    // honest host is specified
                    continue;
                }
                let got: Vec<u64> = e.stack.iter().take(s.expect.len()).cloned().collect();
                if got != s.expect {
                    out.violate(
                        format!("C09/wrong-result/{}{}", s.kind, if faulty { "" } else { "/honest-host" }),
                        format!("[{tag}] step {} `{}`: stack after the instruction is {:?}, mathematically correct result is {:?}", i + 1, s.code, got, s.expect),
                    );
                } else {
                    out.count(&format!("reach:correct|{}|{}", s.kind, if faulty { "byzantine" } else { "honest" }));
                }
                if s.kind == "adv_pipe" && !faulty {
                    // memory side of the pipe is checked through the honest event's stack only
                }
            }
            if !faulty {
                // honest host: must succeed up to the first invalid step, and fail there
                match (outcome, any_must_fail) {
                    (Outcome::Ok(_), None) => {
                        if events.len() != b.steps.len() {
                            out.violate("C09/honest/missing-observation", format!("{} observations for {} steps", events.len(), b.steps.len()));
                        }
                    }
                    (Outcome::Ok(_), Some(k)) => out.violate(format!("C09/should-fail/{}", b.steps[k].kind), format!("honest host: step {} must fail but the program succeeded", k + 1)),
                    (Outcome::Err(_), Some(k)) => {
                        if events.len() != k {
                            out.violate(format!("C09/honest/failed-early/{}", b.steps.get(events.len()).map(|s| s.kind.as_str()).unwrap_or("?")), format!("honest host: failed after {} observations, the first invalid step is {}", events.len(), k + 1));
                        }
                    }
                    (Outcome::Err(e), None) => {
                        let k = events.len();
                        out.violate(format!("C09/honest/failed/{}", b.steps.get(k).map(|s| s.kind.as_str()).unwrap_or("?")), format!("honest host, valid operands: step {} `{}` failed: {}", k + 1, b.steps.get(k).map(|s| s.code.as_str()).unwrap_or(""), e));
                    }
                    (Outcome::Panic(l, m), _) => {
                        let k = events.len();
                        out.violate(format!("C09/honest/panic/{}/{}", b.steps.get(k).map(|s| s.kind.as_str()).unwrap_or("?"), l), format!("honest host: panic in step {}: {}", k + 1, m));
                    }
                }
            }
        };
        // (a) honest host
        {
            let mut host = b.spec.host(vec![], HostCfg { snapshot_stack: true, ..Default::default() });
            let r = vm::run(&program, b.spec.stack(), &mut host, vm::options(Some(1 << 20), 64, false));
            out.evals += 1;
            if let Outcome::Ok(t) = &r {
                out.cycles += t.trace_len_summary().main_trace_len() as u64;
            }
            obs.str(&r.class()).u64(host.log_digest());
            judge(&mut out, &host, &r, false, "honest");
            subs.push(out.digest);
        }
        // (b)/(c) Byzantine host
        for (pi, plan) in sc["plans"].as_array().cloned().unwrap_or_default().iter().enumerate() {
            let faults: Vec<AdvFault> = plan.as_array().cloned().unwrap_or_default().iter().map(AdvFault::from_json).collect();
            let mut host = b.spec.host(faults.clone(), HostCfg { snapshot_stack: true, ..Default::default() });
            let r = vm::run(&program, b.spec.stack(), &mut host, vm::options(Some(1 << 20), 64, false));
            out.evals += 1;
            obs.str(&r.class()).u64(host.log_digest());
            let fired = host.adv.fired.borrow().clone();
            for f in &fired {
                out.count(&format!("fault:{}", f));
            }
            if !fired.is_empty() {
                let mut h = Fnv::new();
                h.u64(out.digest).u64(pi as u64);
                subs.push(h.finish());
                out.count(&format!("outcome:byzantine|{}", match &r {
                    Outcome::Ok(_) => "completed",
                    Outcome::Err(_) => "error",
                    Outcome::Panic(..) => "panic",
                }));
            }
            judge(&mut out, &host, &r, true, &format!("plan {}: {}", pi, plan));
        }
        out.nontrivial = true;
        out.sub_digests = subs;
        out.obs = obs.finish();
        out.sample = Some(json!({"source": b.spec.source, "plans": sc["plans"].as_array().map(|a| a.len()), "first_plan": sc["plans"][0]}));
        out
    }
    fn shrink_arrays(&self) -> Vec<&'static str> {
        vec!["/plans", "/steps"]
    }
    fn components_real(&self) -> Vec<&'static str> {
        vec!["assembler (instruction expansions with in-VM hint checks)", "stdlib math::u64", "processor", "advice injectors (default AdviceProvider trait methods)", "MemAdviceProvider + MerkleStore behind the fault layer"]
    }
    fn components_simulated(&self) -> Vec<&'static str> {
        vec!["Byzantine fault layer in front of the advice provider primitives", "native arithmetic / Merkle reference models"]
    }
    fn assumptions(&self) -> Vec<&'static str> {
        vec!["RPO collision resistance (a forged Merkle path is not found by the simulator)", "a panic or an error both count as 'did not complete'"]
    }
}
