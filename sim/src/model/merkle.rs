//! Native Merkle models (miden-crypto structures) used by generators and oracles.
use crate::world::host::{w, wi};
use processor::crypto::{MerkleStore, MerkleTree};
use vm_core::Word;

pub fn tree_of(leaves: &[[u64; 4]]) -> MerkleTree {
    let ls: Vec<Word> = leaves.iter().map(|l| w(*l)).collect();
    MerkleTree::new(ls).expect("power-of-two leaves")
}
pub fn root_of(leaves: &[[u64; 4]]) -> [u64; 4] {
    let r: Word = tree_of(leaves).root().into();
    wi(&r)
}
pub fn store_of(trees: &[Vec<[u64; 4]>]) -> MerkleStore {
    let mut s = MerkleStore::new();
    for t in trees {
        s.extend(tree_of(t).inner_nodes());
    }
    s
}
